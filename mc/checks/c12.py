"""C12 — the simulator follows the same semantics and laws as the exact analysis.

(a) programs x ALL paths on Polar's real Simulator (stateless prefix-replay exploration with every
    random source scripted), compared path by path with the reference model: per-choice weights,
    per-path probability, state after every iteration, stutter after the guard is false.
(b) samplers: every continuous family x parameter grid x quantile grid; scipy's `rvs` is replaced by
    the quantile function of the frozen scipy distribution built from exactly the arguments Polar
    passes, so `Distribution.sample` becomes the deterministic map u -> x; the oracle CDF (mc.dists,
    textbook definitions via mpmath) must give F(x) = u and x must lie in the declared support.
"""
from .. import gen
from ..common import base_programs, exc_name
from ..model import NotApplicable, CapHit
from ..refparser import NotPolynomial
from ..pool import cpu_limit, CpuTimeout

ID = "C12"
LEVEL = "model_checking"
BUDGET = {"quick": 200, "thorough": 3000}
ASSUMPTIONS = [
    "values are integers / dyadic rationals so that float equality in the simulator coincides with exact equality",
    "random sources intercepted: random.choices, random.choice, scipy.stats.bernoulli.rvs (attribute replacement)",
    "sampler law check trusts scipy's ppf for the frozen distribution and mpmath for the oracle CDF",
]

EXTRA = [
    # guard false right after the initial block: the state is frozen from iteration 0 on
    "x = 5\nc = 0\nwhile c == 1:\n    x = x + 1\n    c = Bernoulli(1/2)\nend\n",
    "x = 5\ny = 0\nwhile x < 3:\n    x = x + 1\n    y = y + 1\nend\n",
    "c = 0 {1/2} 1\nx = 0\nwhile c == 1:\n    x = x + 1\n    c = Bernoulli(1/2)\nend\n",
    # random initial blocks (probabilistic choice / draws before the loop)
    "x = 1 {1/4} 5\ny = 0\nwhile y < 2:\n    y = y + 1\n    x = x + y\nend\n",
    "x = Bernoulli(1/4)\ny = 0 {1/2} 1\nwhile true:\n    y = y + x\nend\n",
    # probabilities / parameters that depend on the current state (re-evaluated at every execution)
    "c = 0\nx = 0\nwhile true:\n    c = 1 - c\n    x = 1 {c} 0\nend\n",
    "c = 1\nx = 0\nwhile true:\n    c = 1 - c\n    x = x + 1 {c/2 + 1/4} x\nend\n",
    "c = 0\nd = 0\nx = 0\nwhile true:\n    c = Bernoulli(1/2)\n    d = Bernoulli(c/2 + 1/4)\n    x = x + d\nend\n",
    "c = 0\nd = 0\nwhile true:\n    c = 1 - c\n    d = Categorical(c/2, 1/2, 1/2 - c/2)\nend\n",
    "c = 2\nx = 0\nwhile c > 0:\n    x = x + 1 {c/4} x - 1\n    c = c - 1 {1/2} c\nend\n",
    "c = 1\nx = 0\nwhile c == 1:\n    x = x + 1\n    c = 0\nend\n",
    "c = 0\nx = 0\nwhile c < 2:\n    c = c + 1 {1/2} c\n    x = x + c\nend\n",
    "x = Bernoulli(1/4)\ny = DiscreteUniform(1, 2)\nwhile true:\n    x, y = y, x\n    y = y + 1 {1/4} y\nend\n",
    "c = 0\nd = 0\nx = 0\nwhile true:\n    c = Categorical(1/2, 1/4, 1/4)\n    d = DiscreteUniform(0, 1)\n    if c == 0 && d == 1:\n        x = x + 1\n    elif c == 2 || d == 0:\n        x = x + 2\n    else:\n        x = x - 1\n    end\nend\n",
    "x = 0\ny = 0\nwhile true:\n    x = 1 {1/4} 2 {1/4} 3 {1/2}\n    y = y + x**2\nend\n",
    "c = 1\nx = 0\nwhile !(c == 0):\n    c = Bernoulli(3/4)\n    if c >= 1:\n        x = x + 1/2\n    end\nend\n",
]


def rule(tier):
    return ("(a) discrete programs of the statement-sequence grammar x every resolution of every random choice to depth %d "
            "(prefix-replay explorer on Polar's Simulator, each schedule run twice); non-trivial = program with >= 2 paths. "
            "(b) 7 continuous families x parameter grid x 9 quantiles") % (3 if tier == "quick" else 4)


def bounds(tier):
    return {"depth": 3 if tier == "quick" else 4, "quantiles": 9}


DEEP = [
    "x = 1\ny = 0\nwhile true:\n    x = x/2\n    if x == 0:\n        y = 1\n    end\nend\n",
    "x = 1\nk = 0\nwhile x > 0:\n    x = x/2\n    k = k + 1\nend\n",
    "x = 1\ny = 0\nwhile true:\n    x = x/4\n    if x <= 0:\n        y = 1\n    end\n    if x < 1/1000000:\n        y = y + 2\n    end\nend\n",
    "x = 0\ny = 0\nwhile x < 50:\n    x = x + 1\n    y = y + x\nend\n",
    "x = 1\ny = 0\nwhile true:\n    x = 2*x\n    if x >= 1000000000000:\n        y = y + 1\n    end\nend\n",
    "x = 1\nz = 1\ny = 0\nwhile true:\n    x = x/2\n    z = z/2 + x/2\n    if z > x:\n        y = y + 1\n    end\n    if z == x:\n        y = y - 1\n    end\nend\n",
    "c = 0\nx = 1\ny = 0\nwhile true:\n    x = x/2\n    if x == 0 || x < 0:\n        c = Bernoulli(1/2)\n        y = y + c\n    end\nend\n",
]


def cases(tier, seed):
    depth = 3 if tier == "quick" else 4
    out = []
    progs = EXTRA + base_programs(tier, with_cont=False, extended=True)
    for t in progs:
        if "p" in t.replace("types", "") and ("(p)" in t or "+ p" in t or "= p" in t or "{q}" in t):
            continue
        out.append({"input": {"kind": "paths", "text": t}, "depth": depth,
                    "two_samples": len(out) < 40 or "{" in t.split("while")[0] or "Bernoulli" in t.split("while")[0] or len(out) % 5 == 0})
    # long runs of (almost) deterministic programs: values that only arise after many iterations (comparisons between
    # numbers that come very close, guards that turn false late, large magnitudes)
    for t in DEEP:
        out.append({"input": {"kind": "paths", "text": t}, "depth": 60 if tier == "quick" else 120, "two_samples": False})
    from ..dists import sampler_grid

    for fam, params in sampler_grid(tier):
        out.append({"input": {"kind": "sampler", "family": fam, "params": params}})
    return out


def run_case(case):
    inp = case["input"]
    if inp["kind"] == "sampler":
        from ..dists import check_sampler

        return check_sampler(inp["family"], inp["params"])
    from ..conform import compare_with_model, ReplayDivergence

    stats = {"programs": 1, "refusals": {}}
    res = {"status": "ok", "stats": stats, "violations": []}
    try:
        with cpu_limit(60):
            mm, st = compare_with_model(inp["text"], case["depth"])
    except (NotApplicable, NotPolynomial, CapHit):
        res["status"] = "na"
        return res
    except CpuTimeout:
        stats["refusals"]["timeout"] = 1
        res["status"] = "refusal"
        return res
    except ReplayDivergence as e:
        res["violations"].append({"sub": "replay-determinism", "detail": {"error": str(e), "program": inp["text"]}})
        res["status"] = "violation"
        return res
    except Exception as e:
        stats["refusals"][exc_name(e)] = 1
        res["status"] = "refusal"
        return res
    stats["traces_validated_against_impl"] = st["paths"]
    stats["evaluations"] = st["runs"]
    stats["states"] = st["paths"] * (case["depth"] + 1)
    stats["transitions"] = st["paths"] * case["depth"]
    if st["paths"] >= 2:
        stats["distinct_nontrivial"] = 1
        res["sample"] = {"program": inp["text"], "paths": st["paths"], "depth": case["depth"]}
    if mm:
        res["violations"].append({"sub": "paths", "detail": {"mismatches": mm[:5], "program": inp["text"]}})
        res["status"] = "violation"
        return res
    # two samples in one simulate() call (depth 1): samples must be independent replicas
    if case.get("two_samples"):
        try:
            from ..conform import check_two_samples
            from .. import polar

            with cpu_limit(30):
                mm2, runs2 = check_two_samples(inp["text"], 1, polar.parse(inp["text"]))
            stats["evaluations"] += runs2
            stats["two_sample_runs"] = runs2
            if mm2:
                res["violations"].append({"sub": "two-samples", "detail": {"mismatches": mm2[:3], "program": inp["text"]}})
                res["status"] = "violation"
        except (NotApplicable, CapHit, CpuTimeout):
            pass
    return res
