"""C18 — loops within the documented restrictions are accepted and analysable.

The class is generated constructively (membership beyond doubt): every variable initialised;
variables in conditions / guards only ever assigned finite draws, constants, copies or polynomials of
finite variables (or declared finite); probabilities and distribution parameters constant (location /
scale allowed for Normal, Uniform, Laplace); no non-linear dependency cycle among data variables
(checked on the oracle's own dependency graph).  Oracle: normalisation raises nothing; every monomial
of degree <= 2 yields a recurrence system and a closed form; the closed form equals the model.
CPU-limit overruns of the SOLVER are recorded, not counted as refusals (the README promises analysability, not speed);
normalisation not returning within 30 CPU seconds (100 x the slowest normalisation of the corpus) is non-acceptance.
"""
import re

from .. import gen
from ..common import base_programs, analyse_program_goals
from ..refparser import parse_program
from .. import lang as L

ID = "C18"
LEVEL = "model_checking"
BUDGET = {"quick": 220, "thorough": 3300}
ASSUMPTIONS = [
    "class membership decided constructively by the generator + the oracle's own dependency graph",
    "a refusal is any exception of normalize_program / RecBuilder.get_recurrences / RecurrenceSolver.get; CPU-limit overruns of the solver are not refusals; normalisation (< 0.5 CPU s on every corpus program) not returning within 30 CPU s is",
]

CLASS_SEEDS = [
    # constants used in conditions
    "k = 2\nc = 0\nx = 0\nwhile true:\n    c = DiscreteUniform(1, 3)\n    if c == k:\n        x = x + k\n    end\nend\n",
    "c = 1\nx = 1\nwhile true:\n    if c == 1:\n        x = x + 1\n    end\nend\n",
    # nested branches reassigning their own condition variable
    "c = 1\nd = 0\nx = 0\nwhile true:\n    if c == 1:\n        if d == 0:\n            d = 1\n            x = x + 1\n        else:\n            d = 0\n        end\n        c = Bernoulli(1/2)\n    else:\n        c = 1\n    end\nend\n",
    # an inner if reassigning its own condition variable followed by a sibling inner if; depth 3; under a guard
    "c = 1\nd = 0\nx = 0\ny = 0\nwhile true:\n    if c == 1:\n        if d == 0:\n            d = 1\n            x = x + 1\n        else:\n            d = 0\n        end\n        if d == 1:\n            y = y + 1\n            d = Bernoulli(1/2)\n        end\n        c = Bernoulli(1/2)\n    else:\n        c = 1\n    end\nend\n",
    "c = 1\nd = 0\nx = 0\nwhile true:\n    c = Bernoulli(1/2)\n    if c == 1:\n        if d == 0:\n            if x == 0:\n                x = 1\n            else:\n                x = 0\n            end\n            d = 1\n        else:\n            d = 0\n        end\n    end\nend\n",
    "c = 1\nd = 0\nx = 0\nwhile c == 1:\n    if d == 0:\n        d = 1\n        x = x + 1\n    else:\n        d = 0\n    end\n    if d == 1:\n        d = Bernoulli(1/2)\n        x = x + 2\n    end\n    c = Bernoulli(1/2)\nend\n",
    # non-integer finite values in conditions
    "c = 1\nx = 0\nwhile true:\n    c = 0 {1/3} 1/2 {1/3} 1\n    if c < 1:\n        x = x + 1\n    end\n    if c >= 1/2:\n        x = x + 2\n    end\nend\n",
    # goals over loop constants
    "k = 3\nx = 0\nwhile true:\n    x = x + k\nend\n",
    "k = Bernoulli(1/2)\nx = 0\nwhile true:\n    x = x + k\nend\n",
    # random / copied loop constants that the loop body never mentions (goals over them, and over products with loop variables)
    "u = DiscreteUniform(1, 3)\nx = u\nwhile true:\n    x = x + 1\nend\n",
    "k = Bernoulli(1/2)\ns = k\nx = 0\nwhile true:\n    x = x + 1 {1/2} x\nend\n",
    "u = 1 {1/2} 2\nx = 0\nc = 0\nwhile c == 0:\n    c = Bernoulli(1/2)\n    x = x + 1\nend\n",
    # conditions over two finite variables with many value combinations but few distinct results (two dice)
    "d = 1\nb = 1\nx = 0\nwhile true:\n    d = DiscreteUniform(1, 6)\n    b = DiscreteUniform(1, 6)\n    if d + b == 7:\n        x = x + 1\n    end\nend\n",
    "d = 1\nb = 1\nx = 0\nwhile true:\n    b = d\n    d = DiscreteUniform(1, 6)\n    if d + b == 7:\n        x = x + 1\n    end\nend\n",
    "d = 0\nb = 0\nx = 0\nwhile true:\n    d = DiscreteUniform(0, 5)\n    b = DiscreteUniform(0, 5)\n    if d == b:\n        x = x + 1\n    elif d > b:\n        x = x - 1\n    end\nend\n",
    # a toggling finite variable next to an accumulator (eigenvalue -1 in an acyclic system: summands like k*(-1)**k)
    "c = 1\nx = Bernoulli(1/4)\nwhile true:\n    if c == 1:\n        c = 0\n    else:\n        c = 1\n        x = x + 1\n    end\nend\n",
    "c = 0\nx = 0\ny = 0\nwhile true:\n    c = 1 - c\n    x = x + c\n    y = y + x\nend\n",
    # linear self-dependency whose coefficient is a power of a freshly drawn ("simple") variable
    "u = 0\nx = 1\nwhile true:\n    u = Normal(0, 1)\n    x = x + u**2*x/2\nend\n",
    "d = 1\ny = 1\nwhile true:\n    d = DiscreteUniform(1, 3)\n    y = y*d**2/2\nend\n",
    "u = 0\nx = 1\ns = 0\nwhile true:\n    u = Uniform(0, 2)\n    s = s + x\n    x = x*u**3 + u\nend\n",
    # a loop constant derived (by a polynomial) from a random loop constant, used in a branch condition / the guard
    "u = Bernoulli(1/2)\nk = 2*u + 1\nx = 0\ny = 0\nwhile true:\n    if k > 2:\n        x = x + k\n    else:\n        y = y + 1\n    end\nend\n",
    "u = DiscreteUniform(0, 2)\nk = u*u + 1\nx = 0\nwhile k < 3:\n    x = x + k\nend\n",
    # || / ! / elif chains
    "c = 0\nx = 0\ny = 0\nwhile true:\n    c = DiscreteUniform(0, 3)\n    if c == 0 || c == 3:\n        x = x + 1\n    elif !(c == 1):\n        y = y + 1\n    elif c >= 1:\n        y = y - 1\n    else:\n        x = 0\n    end\nend\n",
    # guard over two finite variables, location-scale draws
    "c = 1\nd = 0\nx = 0\nwhile c == 1 && d == 0:\n    c = Bernoulli(1/2)\n    d = Bernoulli(1/4)\n    g = Normal(x, 1)\n    x = x + g\nend\n",
    "x = 0\ny = 1\nwhile true:\n    g = Uniform(x, x + y)\n    h = Laplace(y, 1)\n    x = x + g\n    y = y + h\nend\n",
]


def rule(tier):
    return ("statement-sequence grammar restricted to the documented class + seeds for every shape the property names; goals = "
            "monomials of degree <= 2; non-trivial = program whose model has >= 2 states and a non-constant expected sequence")


def bounds(tier):
    return {"depth_N": 4 if tier == "quick" else 5}


CTRL = {"c", "d"}


def in_class(text):
    """Constructive membership test on the oracle's AST."""
    try:
        prog = parse_program(text)
    except Exception:
        return False
    assigned = prog.assigned()
    init_vars = set()

    def walk_init(stmts):
        for s in stmts:
            if isinstance(s, L.Assign):
                init_vars.update(s.targets)

    walk_init(prog.init)
    if assigned - init_vars:
        return False  # all variables initialised
    edges = {}  # (src, dst) -> nonlinear?
    ok = [True]
    cond_vars = set(prog.guard.vars())

    def walk(stmts):
        for s in stmts:
            if isinstance(s, L.If):
                for c in s.conds:
                    cond_vars.update(c.vars())
                for b in s.branches:
                    walk(b)
                if s.else_branch:
                    walk(s.else_branch)
            else:
                for t, r in zip(s.targets, s.rhss):
                    if isinstance(r, L.RPoly):
                        polys = [r.poly]
                    elif isinstance(r, L.RChoice):
                        polys = r.polys
                        for p in r.probs:
                            if p.variables() & assigned:
                                ok[0] = False
                    elif isinstance(r, L.RDraw):
                        polys = []
                        for i, p in enumerate(r.params):
                            vs = p.variables() & assigned
                            if vs:
                                if r.dist in ("Normal", "Laplace") and i == 0 and p.degree() <= 1:
                                    polys.append(p)
                                elif r.dist == "Uniform" and p.degree() <= 1:
                                    polys.append(p)
                                else:
                                    ok[0] = False
                    else:
                        ok[0] = False
                        polys = []
                    for p in polys:
                        for m, c in p.t.items():
                            data = [(v, e) for v, e in m if v in assigned and v not in finite and v not in iid]
                            deg = sum(e for v, e in data)
                            for v, e in m:
                                if v in assigned:
                                    nl = deg >= 2 and (v, e) in data
                                    edges[(v, t)] = edges.get((v, t), False) or nl

    # finite variables: those only ever assigned finite draws / constants / polynomials of finite variables
    finite = set(prog.types)
    changed = True

    def rhs_finite(r, fin):
        if isinstance(r, L.RPoly):
            return r.poly.variables() & assigned <= fin
        if isinstance(r, L.RChoice):
            return all(p.variables() & assigned <= fin for p in r.polys)
        if isinstance(r, L.RDraw):
            return r.dist in ("Bernoulli", "DiscreteUniform", "Categorical")
        return False

    def all_assigns(stmts, out):
        for s in stmts:
            if isinstance(s, L.If):
                for b in s.branches:
                    all_assigns(b, out)
                if s.else_branch:
                    all_assigns(s.else_branch, out)
            else:
                for t, r in zip(s.targets, s.rhss):
                    out.append((t, r))
        return out

    asg = all_assigns(prog.init, []) + all_assigns(prog.body, [])
    fin = _least_finite(asg, assigned, rhs_finite)
    finite |= fin
    # variables whose only assignment in the loop is an unconditioned draw with constant parameters are fresh in every iteration
    iid = set()
    top = {}
    for st in prog.body:
        if isinstance(st, L.Assign):
            for t, r in zip(st.targets, st.rhss):
                top.setdefault(t, []).append(r)
    body_assigned = [t for t, r in all_assigns(prog.body, [])]
    for t, rs in top.items():
        if len(rs) == 1 and body_assigned.count(t) == 1 and isinstance(rs[0], L.RDraw) \
                and not any(p.variables() & assigned for p in rs[0].params):
            iid.add(t)
    walk(prog.init)
    walk(prog.body)
    if not ok[0]:
        return False
    if not (cond_vars & assigned) <= finite:
        return False
    # no non-linear edge on a cycle
    nodes = {v for e in edges for v in e}
    adj = {v: set() for v in nodes}
    for (a, b) in edges:
        adj[a].add(b)

    def reach(a):
        seen, st = set(), [a]
        while st:
            u = st.pop()
            for w in adj.get(u, ()):
                if w not in seen:
                    seen.add(w)
                    st.append(w)
        return seen

    for (a, b), nl in edges.items():
        if nl and (a == b or a in reach(b)):
            return False
    return True


def syntactic_finite(prog):
    """Variables that are finite for syntactic reasons: only ever assigned finite draws, constants, choices of
    such, copies / polynomials of such variables, or the involution 1 - v."""
    assigned = prog.assigned()

    def rhs_finite(r, fin):
        if isinstance(r, L.RPoly):
            return r.poly.variables() & assigned <= fin
        if isinstance(r, L.RChoice):
            return all(p.variables() & assigned <= fin for p in r.polys)
        if isinstance(r, L.RDraw):
            return r.dist in ("Bernoulli", "DiscreteUniform", "Categorical")
        return False

    def all_assigns(stmts, out):
        for s in stmts:
            if isinstance(s, L.If):
                for b in s.branches:
                    all_assigns(b, out)
                if s.else_branch:
                    all_assigns(s.else_branch, out)
            else:
                for t, r in zip(s.targets, s.rhss):
                    out.append((t, r))
        return out

    asg = all_assigns(prog.init, []) + all_assigns(prog.body, [])
    return _least_finite(asg, assigned, rhs_finite)


def _least_finite(asg, assigned, rhs_finite):
    """LEAST fixed point: a variable is syntactically finite if every one of its assignments is a finite draw, a constant, or a
    choice / polynomial over variables ALREADY known to be finite; a reference to itself is allowed only as the identity or the
    involution 1 - t.  (A greatest fixed point would accept mutually recursive growth such as `x, y = y, x; y = x**2`.)"""
    fin = set()
    changed = True
    while changed:
        changed = False
        for t in assigned:
            if t in fin:
                continue
            ok = True
            for tt, r in asg:
                if tt != t:
                    continue
                if isinstance(r, (L.RPoly, L.RChoice)):
                    polys = [r.poly] if isinstance(r, L.RPoly) else r.polys
                    for p in polys:
                        if t in p.variables():
                            if not (p == L.Poly.var(t) or _involution(p, t)):
                                ok = False
                        elif not (p.variables() & assigned <= fin):
                            ok = False
                elif not rhs_finite(r, fin):
                    ok = False
            if ok:
                fin.add(t)
                changed = True
    return fin


def _involution(p, t):
    """1 - t style updates keep a finite variable finite (value set closed under the map is not checked
    syntactically; only the literal `1 - t` is accepted)."""
    from ..poly import Poly

    return p == Poly.const(1) - Poly.var(t)


def cases(tier, seed):
    out = []
    N = 4 if tier == "quick" else 5
    progs = CLASS_SEEDS + [t for t in base_programs(tier) if "p" not in re.findall(r"[a-z]+", t.replace("types", ""))]
    for text in progs:
        if not in_class(text):
            continue
        goals = gen.goals_for(text, 2, 6 if tier == "quick" else 9, skip=())
        out.append({"input": {"text": text, "goals": goals}, "N": N})
    return out


def run_case(case):
    from .. import polar
    from ..pool import cpu_limit, CpuTimeout

    text = case["input"]["text"]
    res = analyse_program_goals(text, case["input"]["goals"], case["N"], refusal_is_violation=True)
    # every condition of a class program is over finitely valued variables: none may be replaced by a coin with an unknown
    # probability (`_probK`), which would make every result a partial one
    if res.get("status") == "ok":
        try:
            with cpu_limit(30):
                polar.reset_settings()
                program = polar.normalize(polar.parse(text))
            defective = [str(v) for v in getattr(program, "defective_variables", [])]
            if defective:
                # the class has no non-linear dependency cycle: every variable must be classified effective
                res["violations"].append({"sub": "variables-classified-defective", "detail": {"program": text, "defective": defective}})
                res["status"] = "violation"
            store = getattr(program, "abstracted_const_store", {}) or {}
            if store:
                res["violations"].append({"sub": "finite-condition-abstracted", "detail": {
                    "program": text, "abstracted": {str(k): str(v) for k, v in store.items()}}})
                res["status"] = "violation"
        except (CpuTimeout, Exception):
            pass
    return res
