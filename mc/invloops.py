"""End-to-end invariant check on loops (C06 part b) — filled in later."""


def loop_cases(tier):
    return []


def check_loop(inp, mode):
    return {"status": "na", "stats": {}, "violations": []}
