"""Access to the system under test (Polar in $POLAR_REPO, default /repo) and the comparison ladder.

Nothing here is imported by the oracle side (mc.model, mc.poly, mc.lang).
"""
import os
import sys
from fractions import Fraction

REPO = os.environ.get("POLAR_REPO", "/repo")

SETTINGS_DEFAULTS = dict(
    transform_categoricals=False,
    cond2arithm=False,
    disable_type_inference=False,
    type_fp_iterations=100,
    numeric_roots=False,
    numeric_croots=False,
    numeric_eps=1e-10,
    trivial_guard=False,
    exact_func_moments=False,
)


def init_worker():
    """Import Polar freshly from the working tree of REPO (never bytecode-cache into it)."""
    sys.dont_write_bytecode = True
    os.environ["PYTHONDONTWRITEBYTECODE"] = "1"
    os.environ["POLAR_VERIF"] = "1"
    if REPO not in sys.path:
        sys.path.insert(0, REPO)
    sys.setrecursionlimit(20000)
    import settings  # noqa

    reset_settings()


def reset_settings(**over):
    import settings
    from program.assignment import FunctionalAssignment

    for k, v in SETTINGS_DEFAULTS.items():
        setattr(settings, k, v)
    for k, v in over.items():
        if k not in SETTINGS_DEFAULTS:
            raise KeyError(k)
        setattr(settings, k, v)
    FunctionalAssignment.exact_func_moments = settings.exact_func_moments
    # generated names (_u3, _old7, ...) depend on a process-global counter; start every case from the
    # state of a fresh process so that a case behaves the same in a worker and in a replay (history
    # dependence is C20's subject and is explored there on purpose)
    import utils.identifiers as ident

    ident._count_unique_var = 0


def parse(text):
    from inputparser import Parser

    return Parser().parse_string(text)


def normalize(program):
    from program import normalize_program

    return normalize_program(program)


def solve(program, monom_text, force_cyclic=False, rb=None):
    """-> (closed form (sympy Piecewise in Symbol('n', integer=True)), is_exact, recurrences)"""
    from recurrences import RecBuilder
    from recurrences.solver import RecurrenceSolver
    from symengine.lib.symengine_wrapper import sympify

    rb = rb or RecBuilder(program)
    monom = sympify(monom_text)
    recs = rb.get_recurrences(monom)
    if force_cyclic:
        s = RecurrenceSolver(recs, force_cyclic_solver=True)
    else:
        s = RecurrenceSolver(recs)
    return s.get(monom), s.is_exact, recs


_CLI_DEFAULTS = None


def cli_defaults():
    global _CLI_DEFAULTS
    if _CLI_DEFAULTS is None:
        from cli.argument_parser import ArgumentParser

        _CLI_DEFAULTS = ArgumentParser().get_defaults()
    import copy

    return copy.copy(_CLI_DEFAULTS)


def solve_cli(program, monom_text, rb, solvers, force_cyclic=False):
    """The route the command line takes for a moment goal: cli.common.get_moment.
    force_cyclic: the solver class used by that route is wrapped to pass force_cyclic_solver=True."""
    import cli.common as cc
    from symengine.lib.symengine_wrapper import sympify
    import sympy

    saved = cc.RecurrenceSolver
    if force_cyclic:
        def forced(recurrences, *a, **k):
            return saved(recurrences, force_cyclic_solver=True)

        cc.RecurrenceSolver = forced
    try:
        moment, exact = cc.get_moment(sympify(monom_text), solvers, rb, cli_defaults(), program)
    finally:
        cc.RecurrenceSolver = saved
    return sympy.sympify(moment), exact


def n_symbol():
    from sympy import Symbol

    return Symbol("n", integer=True)


def max_case(expr):
    from utils import get_max_case_in_piecewise

    try:
        return get_max_case_in_piecewise(expr)
    except Exception:
        return -1


def own_max_case(expr):
    """Largest k of a relational `n <= k` / `n < k` anywhere in expr (own traversal)."""
    import sympy

    k = -1
    for rel in expr.atoms(sympy.core.relational.Relational):
        for a in rel.args:
            if a.is_Integer:
                k = max(k, int(a))
    return k


def at_n(expr, k):
    """Evaluate a closed form at integer n=k (both flavours of the symbol n)."""
    import sympy

    e = expr.xreplace({sympy.Symbol("n", integer=True): sympy.Integer(k), sympy.Symbol("n"): sympy.Integer(k)})
    if e.has(sympy.Piecewise):
        e = sympy.piecewise_fold(e)
    return e


class NotRational(Exception):
    pass


def sym_to_poly(e):
    """Exact conversion of a sympy/symengine polynomial expression with rational coefficients."""
    import sympy
    from .poly import Poly

    e = sympy.sympify(e)
    e = sympy.expand(e)

    def conv(x):
        if x.is_Rational:
            return Poly.const(Fraction(int(x.p), int(x.q)))
        if x.is_Symbol:
            return Poly.var(str(x))
        if x.is_Add:
            r = Poly()
            for a in x.args:
                r = r + conv(a)
            return r
        if x.is_Mul:
            r = Poly.const(1)
            for a in x.args:
                r = r * conv(a)
            return r
        if x.is_Pow and x.args[1].is_Integer:
            b = conv(x.args[0])
            ex = int(x.args[1])
            if ex >= 0:
                return b ** ex
            if b.is_const() and not b.is_zero():
                return b ** ex
            raise NotRational(str(x))
        raise NotRational(str(x))

    return conv(e)


def compare_value(expr_at_n, expected, seed=0, digits=40):
    """Compare Polar's value (sympy expr, n already substituted) with the model's Poly.

    -> (verdict, how, observed_text) ; verdict in {"eq", "neq", "unknown"};
    how in {"exact", "radical", "numeric"}.
    """
    import sympy

    try:
        p = sym_to_poly(expr_at_n)
        return ("eq" if p == expected else "neq"), "exact", p.to_text()
    except NotRational:
        pass
    e = sympy.sympify(expr_at_n)
    # rational functions in parameters: cross-multiply
    try:
        num, den = sympy.fraction(sympy.together(e))
        pn, pd = sym_to_poly(num), sym_to_poly(den)
        if not pd.is_zero():
            return ("eq" if pn == expected * pd else "neq"), "exact", str(e)
    except NotRational:
        pass
    # algebraic / transcendental numbers: numeric comparison at rational points for the symbols
    syms = sorted(e.free_symbols | {sympy.Symbol(v) for v in expected.variables()}, key=str)
    pool = [Fraction(3, 7), Fraction(5, 11), Fraction(2, 13), Fraction(7, 17), Fraction(11, 19), Fraction(13, 23)]
    env = {}
    for i, s in enumerate(syms):
        env[str(s)] = pool[(i + seed) % len(pool)]
    try:
        exp_val = expected.eval(env)
        sub = {s: sympy.Rational(env[str(s)].numerator, env[str(s)].denominator) for s in syms}
        # strict evaluation: the working precision is raised until digits + 20 significant digits are guaranteed (closed forms
        # with unsimplified radicals can carry coefficients of several hundred digits that cancel); if that cannot be reached the
        # value is not judged
        try:
            val = e.xreplace({s: v for s, v in sub.items()}).evalf(digits + 20, maxn=60000, strict=True)
        except sympy.core.evalf.PrecisionExhausted:
            return "unknown", "numeric", str(e)[:300]
        if val.free_symbols or val.has(sympy.nan) or val.has(sympy.zoo):
            return "unknown", "numeric", str(e)
        target = sympy.Rational(exp_val.numerator, exp_val.denominator)
        diff = abs(sympy.N(val - target, digits + 20))
        scale = max(1, abs(sympy.N(target, 20)))
        if diff <= scale * sympy.Float(10) ** (-digits):
            return "eq", "numeric", str(sympy.N(val, 20))
        return "neq", "numeric", str(sympy.N(val, 30))
    except Exception:
        return "unknown", "numeric", str(e)


def compare_value_rounded(expr_at_n, expected, seed=0, tol=1e-5):
    """A result flagged rounded: numeric comparison within a relative tolerance."""
    import sympy

    e = sympy.sympify(expr_at_n)
    syms = sorted(e.free_symbols | {sympy.Symbol(v) for v in expected.variables()}, key=str)
    pool = [Fraction(3, 7), Fraction(5, 11), Fraction(2, 13), Fraction(7, 17), Fraction(11, 19), Fraction(13, 23)]
    env = {str(s): pool[(i + seed) % len(pool)] for i, s in enumerate(syms)}
    try:
        exp_val = expected.eval(env)
        sub = {s: sympy.Rational(env[str(s)].numerator, env[str(s)].denominator) for s in syms}
        val = complex(e.xreplace(sub).evalf(30, maxn=60000, strict=True))
    except Exception:
        return "unknown", "rounded", str(e)[:200]
    if abs(val - float(exp_val)) <= tol * max(1.0, abs(float(exp_val))):
        return "eq", "rounded", str(val)
    return "neq", "rounded", str(val)


def canon_names(text):
    """Rename generated auxiliaries (_u12, _old3, ...) by order of first appearance."""
    import re

    seen = {}

    def rep(m):
        pre = m.group(1)
        key = m.group(0)
        if key not in seen:
            seen[key] = "_%s#%d" % (pre, sum(1 for k in seen if seen[k].startswith("_%s#" % pre)))
        return seen[key]

    return re.sub(r"_([a-zA-Z]+)(\d+)", rep, text)
