"""Own AST for Polar's loop language + printer to source text.

Programs are generated as ASTs and rendered to text here, so Polar's parser is part of the system
under test and never part of the oracle.  Expressions are `Poly` objects (mc.poly).
"""
from fractions import Fraction
from .poly import Poly

# ---------------------------------------------------------------------------------------------
# conditions


class Cond:
    pass


class TrueC(Cond):
    def text(self):
        return "true"

    def vars(self):
        return set()


class FalseC(Cond):
    def text(self):
        return "false"

    def vars(self):
        return set()


class Atom(Cond):
    def __init__(self, lhs, cop, rhs):
        self.lhs = Poly.coerce(lhs)
        self.cop = cop
        self.rhs = Poly.coerce(rhs)

    def text(self):
        return "%s %s %s" % (self.lhs.to_text(), self.cop, self.rhs.to_text())

    def vars(self):
        return self.lhs.variables() | self.rhs.variables()


class And(Cond):
    def __init__(self, a, b):
        self.a, self.b = a, b

    def text(self):
        return "(%s) && (%s)" % (self.a.text(), self.b.text())

    def vars(self):
        return self.a.vars() | self.b.vars()


class Or(Cond):
    def __init__(self, a, b):
        self.a, self.b = a, b

    def text(self):
        return "(%s) || (%s)" % (self.a.text(), self.b.text())

    def vars(self):
        return self.a.vars() | self.b.vars()


class Not(Cond):
    def __init__(self, a):
        self.a = a

    def text(self):
        return "!(%s)" % self.a.text()

    def vars(self):
        return self.a.vars()


# ---------------------------------------------------------------------------------------------
# right-hand sides


class Rhs:
    pass


class RPoly(Rhs):
    def __init__(self, poly):
        self.poly = Poly.coerce(poly)

    def text(self):
        return self.poly.to_text()

    def reads(self):
        return self.poly.variables()


class RChoice(Rhs):
    """v = e1 {p1} e2 {p2} ... ek [{pk}] ; probs has len k (last is the implicit remainder when
    `explicit_last` is False; it must then equal 1 - sum of the others)."""

    def __init__(self, polys, probs, explicit_last=False):
        self.polys = [Poly.coerce(p) for p in polys]
        self.probs = [Poly.coerce(p) for p in probs]
        assert len(self.polys) == len(self.probs)
        self.explicit_last = explicit_last

    def text(self):
        s = ""
        k = len(self.polys)
        for i in range(k):
            s += self.polys[i].to_text()
            if i < k - 1 or self.explicit_last:
                s += " {%s} " % self.probs[i].to_text()
        return s.strip()

    def reads(self):
        r = set()
        for p in self.polys + self.probs:
            r |= p.variables()
        return r


class RDraw(Rhs):
    def __init__(self, dist, params):
        self.dist = dist
        self.params = [Poly.coerce(p) for p in params]

    def text(self):
        return "%s(%s)" % (self.dist, ", ".join(p.to_text() for p in self.params))

    def reads(self):
        r = set()
        for p in self.params:
            r |= p.variables()
        return r


class RFunc(Rhs):
    """Sin/Cos/Exp of a variable or a number."""

    def __init__(self, func, arg):
        self.func = func
        self.arg = Poly.coerce(arg)

    def text(self):
        return "%s(%s)" % (self.func, self.arg.to_text())

    def reads(self):
        return self.arg.variables()


# ---------------------------------------------------------------------------------------------
# statements


class Stmt:
    sid = None  # filled by Prog.number()


class Assign(Stmt):
    """targets: list of names, rhss: list of Rhs (len > 1 = simultaneous assignment)."""

    def __init__(self, targets, rhss):
        if isinstance(targets, str):
            targets = [targets]
        if isinstance(rhss, (Rhs, Poly, int, Fraction, str)):
            rhss = [rhss]
        self.targets = list(targets)
        self.rhss = [r if isinstance(r, Rhs) else RPoly(r) for r in rhss]
        assert len(self.targets) == len(self.rhss)

    def lines(self, ind):
        return [" " * ind + "%s = %s" % (", ".join(self.targets), ", ".join(r.text() for r in self.rhss))]


class If(Stmt):
    def __init__(self, conds, branches, else_branch=None):
        self.conds = list(conds)
        self.branches = [list(b) for b in branches]
        self.else_branch = list(else_branch) if else_branch is not None else None
        assert len(self.conds) == len(self.branches)

    def lines(self, ind):
        out = []
        for i, (c, b) in enumerate(zip(self.conds, self.branches)):
            out.append(" " * ind + ("if " if i == 0 else "elif ") + c.text() + ":")
            for s in b:
                out += s.lines(ind + 4)
        if self.else_branch is not None:
            out.append(" " * ind + "else:")
            for s in self.else_branch:
                out += s.lines(ind + 4)
        out.append(" " * ind + "end")
        return out


class Prog:
    def __init__(self, init, guard, body, types=None):
        self.types = dict(types or {})  # name -> list of Fractions (declared Finite type)
        self.init = list(init)
        self.guard = guard
        self.body = list(body)
        self.number()

    def number(self):
        c = [0]

        def walk(stmts):
            for s in stmts:
                s.sid = c[0]
                c[0] += 1
                if isinstance(s, If):
                    for b in s.branches:
                        walk(b)
                    if s.else_branch is not None:
                        walk(s.else_branch)

        walk(self.init)
        walk(self.body)

    def text(self):
        out = []
        if self.types:
            out.append("types")
            for v, vals in self.types.items():
                out.append("    %s : Finite(%s)" % (v, ", ".join(Poly.const(x).to_text() for x in vals)))
            out.append("end")
        for s in self.init:
            out += s.lines(0)
        out.append("while %s:" % self.guard.text())
        for s in self.body:
            out += s.lines(4)
        out.append("end")
        return "\n".join(out) + "\n"

    # -- static information -------------------------------------------------------------------
    def assigned(self):
        res = set()

        def walk(stmts):
            for s in stmts:
                if isinstance(s, Assign):
                    res.update(s.targets)
                else:
                    for b in s.branches:
                        walk(b)
                    if s.else_branch is not None:
                        walk(s.else_branch)

        walk(self.init)
        walk(self.body)
        return res

    def body_assigned(self):
        res = set()

        def walk(stmts):
            for s in stmts:
                if isinstance(s, Assign):
                    res.update(s.targets)
                else:
                    for b in s.branches:
                        walk(b)
                    if s.else_branch is not None:
                        walk(s.else_branch)

        walk(self.body)
        return res
