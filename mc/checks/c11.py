"""C11 — central moments, cumulants, tail bounds and expansions match the exact law.

(a) programs x monomial x order k x thresholds a: the exact law of M at every n <= N comes from the
    explored Markov chain (finite support); central moments by definition, cumulants by the set-
    partition formula, P(M >= a), P(M > a) by summation.  Polar's values come from the very handlers
    the CLI uses (GoalParser.parse -> GoalsAction.handle_*_goal; tail bounds from the printed
    `--at_n` lines).
(b) Gram-Charlier: all cumulant vectors of a grid: density integrates to 1 and reproduces raw
    moments 1..k.  (c) Cornish-Fisher: equals the textbook expansion as a polynomial in z (agreement
    on 9 points of a polynomial of degree <= 4).
"""
import io
import itertools
import re
import contextlib
from fractions import Fraction as F
from math import comb, factorial

from .. import gen
from ..common import base_programs, exc_name, build_model, THOROUGH
from ..model import NotApplicable, CapHit
from ..refparser import NotPolynomial
from ..poly import parse_poly, Poly
from ..pool import cpu_limit, CpuTimeout, tainted

ID = "C11"
LEVEL = "model_checking"
BUDGET = {"quick": 220, "thorough": 3300}
ASSUMPTIONS = [
    "programs are discrete with numeric values so that the law of M at n is a finite table of Fractions",
    "central moments are checked for k >= 2 (Polar reports the mean for k = 1; recorded convention)",
    "tail bounds are judged only when the printed non-negativity assumption holds on the whole support at that n",
    "Gram-Charlier integrals by mpmath quadrature at 30 digits; Cornish-Fisher against the textbook terms up to 5 cumulants",
]


def rule(tier):
    return ("discrete programs of the grammar x monomials {x, y, x*y, ...} x k <= %d x a in {1/2, 1, 3} x n <= N; expansions: all "
            "cumulant vectors of the grid; non-trivial = (program, monomial) whose law has >= 2 support points at some n") % (3 if tier == "quick" else 4)


def bounds(tier):
    return {"depth_N": 4, "k_max": 3 if tier == "quick" else 4, "thresholds": ["1/2", "1", "3", "+ the value of a point-mass law at n (first two per monomial)"]}


def set_partitions(n):
    """All set partitions of {0..n-1} as lists of block sizes (with multiplicity)."""
    if n == 0:
        yield []
        return
    # standard recursive generation over restricted growth strings
    def rec(i, blocks):
        if i == n:
            yield [len(b) for b in blocks]
            return
        for b in blocks:
            b.append(i)
            yield from rec(i + 1, blocks)
            b.pop()
        blocks.append([i])
        yield from rec(i + 1, blocks)
        blocks.pop()

    yield from rec(0, [])


def cumulant_from_moments(m, n):
    """kappa_n = sum over partitions pi of (-1)^(|pi|-1) (|pi|-1)! prod m_|B|   (m: dict order -> value)"""
    tot = 0
    for sizes in set_partitions(n):
        term = F((-1) ** (len(sizes) - 1) * factorial(len(sizes) - 1))
        for s in sizes:
            term *= m[s]
        tot += term
    return tot


def moment_from_cumulants(kap, n):
    tot = 0
    for sizes in set_partitions(n):
        term = F(1)
        for s in sizes:
            term *= kap[s]
        tot += term
    return tot


GC_GRID = [dict(zip((1, 2, 3, 4, 5), v)) for v in itertools.product([F(0), F(1)], [F(1), F(4)], [F(0), F(1, 2), F(-1, 2)],
                                                                   [F(0), F(1, 2), F(1)], [F(0), F(1)])]


def cases(tier, seed):
    out = []
    kmax = 3 if tier == "quick" else 4
    progs = [t for t in base_programs(tier, with_cont=False) if "p" not in re.findall(r"[a-z]+", t)]
    progs = [t for t in progs if "x0" not in t]
    step = 3 if tier == "quick" else 1
    seed_set = set(gen.SEEDS)
    for text in [t for i, t in enumerate(progs) if i % step == 0 or t in seed_set]:
        vs = [v for v in gen.goals_for(text, 1, 3) if v in ("x", "y", "c")]
        monos = vs[:2] + (["%s*%s" % (vs[0], vs[1])] if len(vs) >= 2 and tier != "quick" else [])
        if not monos:
            continue
        out.append({"input": {"kind": "program", "text": text, "monomials": monos}, "N": 4, "kmax": kmax})
    # high orders (binomial coefficients with n >= 5 only appear from order 5 on) on three cheap programs
    for text in ("x = 0\nwhile true:\n    x = x + 2 {1/4} x - 1 {1/4} x\nend\n",
                 "c = 0\nx = 1\nwhile true:\n    c = Bernoulli(1/3)\n    x = x + c\nend\n",
                 "x = 0\nwhile true:\n    x = DiscreteUniform(0, 3)\nend\n"):
        out.append({"input": {"kind": "program", "text": text, "monomials": ["x"], "high": True}, "N": 3, "kmax": 6})
    # deterministic sequences whose closed forms carry no special cases: the law is a point mass that crosses the thresholds
    for text, monos in (("c = 1\nx = 1\nwhile true:\n    x = x + c\nend\n", ["x", "x*c"]),
                        ("x = 1\ny = 2\nwhile true:\n    y = y + x\nend\n", ["y", "x*y"]),
                        ("x = 1\nwhile true:\n    x = 2*x\nend\n", ["x"]),
                        # monomials of degree >= 2 with initial values well above the thresholds
                        ("x = 3\nwhile true:\n    x = x + 1 {1/2} x + 2\nend\n", ["x", "x**2"]),
                        ("x = 2\ny = 3\nwhile true:\n    x = x + 1\n    y = y + x {1/2} y\nend\n", ["x*y", "y**2"])):
        out.append({"input": {"kind": "program", "text": text, "monomials": monos}, "N": 4, "kmax": kmax})
    for kv in GC_GRID:
        for k in (3, 4, 5):
            if any(kv[j] != 0 for j in range(k + 1, 6)):
                continue
            out.append({"input": {"kind": "gram_charlier", "cumulants": [str(kv[j]) for j in range(1, k + 1)]}})
            out.append({"input": {"kind": "cornish_fisher", "cumulants": [str(kv[j]) for j in range(1, k + 1)]}})
    if tier != "quick":
        # the thorough enumeration is larger than its budget: the order is a seed-dependent permutation, so that the part that is
        # reached differs between runs (the evidence reports the cut as skipped_budget / exhaustive: false)
        import random

        head = [c for c in out if c["input"]["kind"] != "program"]
        tail = [c for c in out if c["input"]["kind"] == "program"]
        random.Random(seed).shuffle(tail)
        out = head + tail
    # de-duplicate expansions
    seen, uniq = set(), []
    for c in out:
        key = repr(c["input"])
        if key not in seen:
            seen.add(key)
            uniq.append(c)
    return uniq


def run_case(case):
    kind = case["input"]["kind"]
    if kind == "program":
        return run_program(case)
    if kind == "gram_charlier":
        return run_gc(case)
    return run_cf(case)


def law_of(model, mono, n):
    law = model.law(mono, n)
    out = {}
    for v, p in law.items():
        out[v] = p.const_value()
    return out


def run_program(case):
    from .. import polar
    import sympy

    text = case["input"]["text"]
    N = case["N"]
    kmax = case["kmax"]
    import time as _time

    _t0 = _time.process_time()
    CASE = 150 if (THOROUGH or case["input"].get("high")) else 20

    def spent_out():
        if _time.process_time() - _t0 > CASE:
            stats["refusals"]["case_budget"] = stats["refusals"].get("case_budget", 0) + 1
            return True
        return False

    stats = {"programs": 1, "evaluations": 0, "refusals": {}}
    res = {"status": "ok", "stats": stats, "violations": []}
    try:
        with cpu_limit(20):
            model = build_model(text)
            model.run(N)
    except (NotApplicable, NotPolynomial, CapHit, CpuTimeout):
        res["status"] = "na"
        return res
    polar.reset_settings()
    try:
        with cpu_limit(30):
            program = polar.normalize(polar.parse(text))
    except CpuTimeout:
        stats["refusals"]["timeout@normalize"] = 1
        res["status"] = "refusal"
        return res
    except Exception as e:
        stats["refusals"][exc_name(e)] = 1
        res["status"] = "refusal"
        return res
    from cli.actions.goals_action import GoalsAction
    from inputparser import GoalParser
    from recurrences import RecBuilder

    args = polar.cli_defaults()
    args.tail_bound_moments = kmax
    ga = GoalsAction(args)
    ga.initialize_program(program, RecBuilder(program))
    for mono in case["input"]["monomials"]:
        if tainted():
            stats["refusals"]["skipped_after_timeout"] = stats["refusals"].get("skipped_after_timeout", 0) + 1
            continue
        gp = parse_poly(mono)
        try:
            laws = [law_of(model, gp, n) for n in range(N + 1)]
        except (NotApplicable, ValueError):
            stats["model_not_applicable"] = stats.get("model_not_applicable", 0) + 1
            continue
        if any(len(l) >= 2 for l in laws):
            stats["distinct_nontrivial"] = stats.get("distinct_nontrivial", 0) + 1
        raw = [{k: sum(p * v ** k for v, p in l.items()) for k in range(0, kmax + 1)} for l in laws]

        def judge(sub, sol, truth_fn, kfrom=0):
            if any(str(sy).startswith("_prob") for sy in sol.free_symbols):
                # result expressed through the probability of an abstracted condition: not judged here (C01 / C02 substitute it)
                stats["abstraction_results_not_judged"] = stats.get("abstraction_results_not_judged", 0) + 1
                return
            kmaxc = max(N, polar.own_max_case(sol) + 1)
            for n in range(min(kmaxc, N) + 1):
                t = truth_fn(n)
                verdict, how, txt = polar.compare_value(polar.at_n(sol, n), Poly.const(t))
                stats["evaluations"] += 1
                if verdict == "neq":
                    res["violations"].append({"sub": sub, "detail": {"n": n, "expected": str(t), "observed": txt,
                                                                     "polar": str(sol)[:300], "program": text}})
                    return

        for k in range(1, kmax + 1):
            if tainted() or spent_out():
                break
            # central moment
            try:
                with cpu_limit(8 if not (THOROUGH or case["input"].get("high")) else 60):
                    gt, gd = GoalParser.parse("c%d(%s)" % (k, mono))
                    sol, exact = ga.handle_central_moment_goal(gd)
                    sol = sympy.sympify(sol)
                    if k >= 2:
                        judge("c%d(%s)" % (k, mono), sol,
                              lambda n: sum(p * (v - raw[n][1]) ** k for v, p in laws[n].items()))
                    else:
                        judge("c1(%s)" % mono, sol, lambda n: raw[n][1])
            except CpuTimeout:
                stats["refusals"]["timeout@central"] = stats["refusals"].get("timeout@central", 0) + 1
                break
            except Exception as e:
                kk = "central:" + exc_name(e)
                stats["refusals"][kk] = stats["refusals"].get(kk, 0) + 1
            # cumulant
            try:
                with cpu_limit(8 if not (THOROUGH or case["input"].get("high")) else 60):
                    gt, gd = GoalParser.parse("k%d(%s)" % (k, mono))
                    sol, exact = ga.handle_cumulant_goal(gd)
                    sol = sympy.sympify(sol)
                    judge("k%d(%s)" % (k, mono), sol, lambda n: cumulant_from_moments(raw[n], k))
            except CpuTimeout:
                stats["refusals"]["timeout@cumulant"] = stats["refusals"].get("timeout@cumulant", 0) + 1
                break
            except Exception as e:
                kk = "cumulant:" + exc_name(e)
                stats["refusals"][kk] = stats["refusals"].get(kk, 0) + 1
        # tail bounds through the printed --at_n lines
        plan = {a: list(range(N + 1) if THOROUGH else (0, 1, 3)) for a in ("1/2", "1", "3")}
        # thresholds that coincide with a point mass of the law (degenerate second moment of M - a): the first two per monomial
        extra = 0
        for n in range(N + 1):
            if len(laws[n]) == 1 and extra < 2:
                v = next(iter(laws[n]))
                if v > 0 and n not in plan.get(str(v), []):
                    plan.setdefault(str(v), []).append(n)
                    extra += 1
        for a in plan:
            if tainted() or spent_out():
                break
            af = F(a)
            for n in plan[a]:
                if spent_out():
                    break
                try:
                    with cpu_limit(8 if not THOROUGH else 60):
                        args.at_n = n
                        buf = io.StringIO()
                        with contextlib.redirect_stdout(buf):
                            gt, gd = GoalParser.parse("P(%s >= %s) <= ?" % (mono, a))
                            ga.handle_tail_bound_upper_goal(gd)
                            gt2, gd2 = GoalParser.parse("P(%s > %s) >= ?" % (mono, a))
                            ga.handle_tail_bound_lower_goal(gd2)
                        text_out = buf.getvalue()
                except CpuTimeout:
                    stats["refusals"]["timeout@tail"] = stats["refusals"].get("timeout@tail", 0) + 1
                    break
                except Exception as e:
                    kk = "tail:" + exc_name(e)
                    stats["refusals"][kk] = stats["refusals"].get(kk, 0) + 1
                    break
                finally:
                    args.at_n = -1
                law = laws[n]
                p_ge = sum(p for v, p in law.items() if v >= af)
                p_gt = sum(p for v, p in law.items() if v > af)
                m = re.search(r"\| n=%d\) <= (\S+) " % n, text_out)
                if m and all(v >= 0 for v in law):
                    try:
                        ub = sympy.sympify(m.group(1))
                        stats["evaluations"] += 1
                        if ub.is_number and sympy.Rational(p_ge.numerator, p_ge.denominator) > ub:
                            res["violations"].append({"sub": "P(%s >= %s) upper" % (mono, a),
                                                      "detail": {"n": n, "true_tail": str(p_ge), "reported_bound": str(ub), "program": text}})
                    except Exception:
                        pass
                m = re.search(r"\| n=%d\) >= (\S+) " % n, text_out)
                if m and all(v - af >= 0 for v in law):
                    try:
                        lb = sympy.sympify(m.group(1))
                        stats["evaluations"] += 1
                        if lb.is_number and lb.is_real and sympy.Rational(p_gt.numerator, p_gt.denominator) < lb:
                            # the law is a point mass exactly at the threshold: E((M - a)**2) = 0 and the quotient of the
                            # Paley-Zygmund bound is 0/0 (recorded call-site finding); every other case keeps its own label
                            # (the cancelled quotient is a limit of quotients <= 1, so a reported bound above 1 is something else)
                            point = len(law) == 1 and af in law and lb <= 1
                            res["violations"].append({"sub": "lower-bound-point-mass-at-threshold" if point else "P(%s > %s) lower" % (mono, a),
                                                      "detail": {"n": n, "true_tail": str(p_gt), "reported_bound": str(lb), "program": text}})
                    except Exception:
                        pass
        if "sample" not in res and any(len(l) >= 2 for l in laws):
            res["sample"] = {"program": text, "monomial": mono,
                             "law_at_N": {str(v): str(p) for v, p in sorted(laws[N].items())[:8]}}
    stats["states"] = model.states_seen
    stats["transitions"] = model.transitions
    if res["violations"]:
        res["status"] = "violation"
    return res


def run_gc(case):
    import sympy
    import mpmath as mp

    mp.mp.dps = 30
    stats = {"evaluations": 0, "refusals": {}, "distinct_nontrivial": 1, "states": 1, "transitions": 1}
    res = {"status": "ok", "stats": stats, "violations": []}
    kap = {i + 1: F(c) for i, c in enumerate(case["input"]["cumulants"])}
    k = len(kap)
    from expansions import GramCharlierExpansion

    try:
        with cpu_limit(30):
            dens = GramCharlierExpansion({i: sympy.Rational(v.numerator, v.denominator) for i, v in kap.items()})()
            x = sympy.Symbol("x")
            f = sympy.lambdify(x, dens, "mpmath")
            mu = float(kap[1])
            sg = float(kap[2]) ** 0.5
            pts = [-mp.inf, mu - 8 * sg, mu, mu + 8 * sg, mp.inf]
            for j in range(0, k + 1):
                val = mp.quad(lambda t: t ** j * f(t), pts)
                want = moment_from_cumulants(kap, j) if j else F(1)
                stats["evaluations"] += 1
                if abs(val - mp.mpf(want.numerator) / want.denominator) > mp.mpf("1e-15"):
                    res["violations"].append({"sub": "gram_charlier", "detail": {"cumulants": case["input"]["cumulants"], "order": j,
                                                                                "integral": mp.nstr(val, 20), "expected": str(want)}})
                    break
    except CpuTimeout:
        stats["refusals"]["timeout"] = 1
    except Exception as e:
        stats["refusals"][exc_name(e)] = 1
    res["sample"] = {"cumulants": case["input"]["cumulants"], "kind": "gram_charlier"}
    if res["violations"]:
        res["status"] = "violation"
    return res


def textbook_cf(kap, z):
    """Standard Cornish-Fisher expansion (Abramowitz & Stegun 26.2.49 arrangement) using as many terms as
    there are cumulants beyond the second."""
    s = kap[2] ** 0.5
    k = len(kap)
    w = z
    g1 = kap[3] / s ** 3 if k >= 3 else 0
    g2 = kap[4] / s ** 4 if k >= 4 else 0
    g3 = kap[5] / s ** 5 if k >= 5 else 0
    if k >= 3:
        w += g1 * (z ** 2 - 1) / 6
    if k >= 4:
        w += g2 * (z ** 3 - 3 * z) / 24 - g1 ** 2 * (2 * z ** 3 - 5 * z) / 36
    if k >= 5:
        w += g3 * (z ** 4 - 6 * z ** 2 + 3) / 120 - g1 * g2 * (z ** 4 - 5 * z ** 2 + 2) / 24 \
            + g1 ** 3 * (12 * z ** 4 - 53 * z ** 2 + 17) / 324
    return kap[1] + s * w


def run_cf(case):
    import sympy
    import mpmath as mp

    mp.mp.dps = 30
    stats = {"evaluations": 0, "refusals": {}, "distinct_nontrivial": 1, "states": 1, "transitions": 1}
    res = {"status": "ok", "stats": stats, "violations": []}
    kap = {i + 1: F(c) for i, c in enumerate(case["input"]["cumulants"])}
    from expansions import CornishFisherExpansion

    try:
        with cpu_limit(30):
            expr = CornishFisherExpansion({i: sympy.Rational(v.numerator, v.denominator) for i, v in kap.items()})()
            p = sympy.Symbol("p")
            for pv in ("0.01", "0.1", "0.25", "0.4", "0.5", "0.6", "0.75", "0.9", "0.99"):
                val = mp.mpmathify(sympy.N(expr.xreplace({p: sympy.Float(pv, 40)}), 30))
                z = mp.sqrt(2) * mp.erfinv(2 * mp.mpf(pv) - 1)
                want = textbook_cf({i: mp.mpf(v.numerator) / v.denominator for i, v in kap.items()}, z)
                stats["evaluations"] += 1
                if abs(val - want) > mp.mpf("1e-15"):
                    res["violations"].append({"sub": "cornish_fisher", "detail": {"cumulants": case["input"]["cumulants"], "p": pv,
                                                                                 "polar": mp.nstr(val, 20), "textbook": mp.nstr(want, 20)}})
                    break
    except CpuTimeout:
        stats["refusals"]["timeout"] = 1
    except Exception as e:
        stats["refusals"][exc_name(e)] = 1
    res["sample"] = {"cumulants": case["input"]["cumulants"], "kind": "cornish_fisher"}
    if res["violations"]:
        res["status"] = "violation"
    return res
