"""C19 — texts that denote the same loop yield the same analysis; ill-formed texts are rejected.

(A) every applicable instance of every meaning-preserving rewrite of a set of seed programs
    (whitespace, comments, blank lines, redundant parentheses, decimal <-> fraction, explicit <-> omitted
    last probability, simultaneous <-> temporaries, elif <-> nested else-if) and precedence probes:
    Polar's closed forms for the rewritten text must equal the reference model of the ORIGINAL text.
(B) every single-token deletion, duplication and substitution (from a token alphabet) of the seed
    texts: Polar accepts  <=>  the independent recursive-descent recogniser (mc.refparser) accepts; when
    both accept, Polar's parsed program and the recogniser's AST must denote the same chain (explored
    to depth 2, exact distributions).
(C) all probability vectors of length <= 3 over {-1/2, 0, 1/3, 1/2, 2/3, 1, 3/2}: a choice with a
    negative constant probability or a constant sum > 1 must be rejected.
"""
import itertools
import re

from ..poly import parse_poly
from fractions import Fraction as F

from ..common import exc_name, analyse_program_goals, build_model
from ..model import Model, NotApplicable, CapHit
from ..refparser import parse_program, RefParseError, NotPolynomial, tokenize
from ..pool import cpu_limit, CpuTimeout
from .. import gen

ID = "C19"
LEVEL = "exploration"
BUDGET = {"quick": 220, "thorough": 3300}
ASSUMPTIONS = [
    "the reference recogniser reads inputparser/syntax.lark literally (&& / || equal precedence, right associative; `!` needs "
    "parentheses; lower-case-only names inside arithmetic); token edits are re-joined with single blanks so that no edit creates "
    "a token by adjacency",
    "accepted-by-both edits are compared at parse level (exact distributions to depth 2), equivalent spellings through the full analysis",
]

SEEDS = [
    "c = 1\nx = 0\nwhile c == 1:\n    c = Bernoulli(1/2)\n    x = x + 1 {1/4} x - 1\nend\n",
    "x = 1\ny = 2\nwhile true:\n    x, y = y, x + y\nend\n",
    "c = 0\nx = 0\ny = 0\nwhile true:\n    c = DiscreteUniform(0, 2)\n    if c == 0:\n        x = x + 1\n    elif c == 1:\n        y = y + 1/2\n    else:\n        x = 2*x - y\n    end\nend\n",
    "c = 1\nd = 0\nx = 0\nwhile true:\n    c = Bernoulli(1/2)\n    d = Bernoulli(1/4)\n    if c == 1 && d == 0:\n        x = x + 1\n    end\n    if !(c == 1) || d == 1:\n        x = x - 1/2\n    end\nend\n",
    "x = 0\ny = 1\nwhile true:\n    x = x + 2 {1/3} x {1/3} x - y\n    y = 1 - y\nend\n",
    "c = 0\nx = 1\ny = 0\nwhile true:\n    c = Bernoulli(1/2)\n    if c == 1:\n        x, y = 0, x + y\n    else:\n        x = x + 1\n    end\nend\n",
    # simultaneous assignment of textually identical random right-hand sides (independent draws), next to a sequential reading
    "a = 0\nb = 0\ns = 0\nwhile true:\n    a, b = 1 {1/2} 0, 1 {1/2} 0\n    s = s + a*b\nend\n",
    "a = 0\nb = 0\ns = 0\nwhile true:\n    a, b = Bernoulli(1/2), Bernoulli(1/2)\n    s, a = s + a*b, s\nend\n",
    # fractions in divisor / power-base / probability positions
    "u = 1\nx = 0\nwhile true:\n    x = x + u/(1/4) {(9/10)**2} x - 1/(5/2)\n    u = 2*u/(1/2) {1/(5/2)} u*(3/4)**2\nend\n",
    # an elif chain without else whose first branch is one plain inner if
    "c = 0\nd = 0\nx = 0\ny = 0\nwhile true:\n    c = Bernoulli(1/2)\n    d = Bernoulli(1/2)\n    if c == 1:\n        if d == 1:\n            x = x + 1\n        end\n    elif d == 0:\n        y = y + 2\n    end\nend\n",
]
SEEDS_MORE = [
    "g = 0\nx = 0\nwhile true:\n    g = Normal(x, 1)\n    x = x + g/2\nend\n",
    "types\n    c : Finite(0, 1)\nend\nc = 0\nx = 1\nwhile true:\n    c = 1 - c\n    x = x*(1 + c) - c**2\nend\n",
]
PROBES = [
    # (arithmetic text, python-precedence value text) inside `x = <expr>` with a = 5, b = 3, c = 2
    "a - b - c", "-a**2", "2**3**2", "a/b*c", "a - -b", "a*-b", "-a*(b - c)", "a - b*c**2", "(a - b)**2/2", "2*a**2*b - a/2/2",
    "+a - +b", "a**2**1", "1/2*a", "a/(b*c)", "a/b/c",
    "(-a)**2", "(-2)**2*a", "(a)**2 - (b)", "(-a)*(-b)", "a - (-b)**3", "((-a))**2 + (+b)", "(-1/2)**2*a", "2**(-1)*a", "(a)-(-b)",
]
SUBST = ["=", "==", ":", "end", "if", "(", ")", "{", "}", ",", "+", "x", "1", "&&", "while", "else"]


def rule(tier):
    return ("seeds (%d) x all instances of 8 rewrite rules + %d precedence probes; all single-token deletions / duplications / "
            "substitutions (alphabet of %d tokens) of the seeds; all probability vectors of length <= 3 over 7 values; "
            "non-trivial = edit accepted by both parsers, or rewrite whose model has >= 2 states") % (
        len(SEEDS) + (len(SEEDS_MORE) if tier != "quick" else 0), len(PROBES), len(SUBST) if tier != "quick" else 6)


def bounds(tier):
    return {"depth_N": 3, "parse_level_depth": 2}


# ---------------------------------------------------------------------------------------------
# rewrites


def rewrites(text):
    out = []
    lines = text.rstrip("\n").split("\n")
    # whitespace
    out.append(("ws:double", text.replace(" ", "  ")))
    out.append(("ws:tabs", re.sub(r"^( +)", lambda m: "\t" * (len(m.group(1)) // 4), text, flags=re.M)))
    out.append(("ws:none-around-ops", re.sub(r" *([-+*/=<>]+) *", r"\1", text)))
    out.append(("ws:trailing", "\n".join(l + "   " for l in lines) + "\n"))
    out.append(("ws:crlf", text.replace("\n", "\r\n")))
    out.append(("ws:leading-blank-lines", "\n\n" + text + "\n\n"))
    # comments / blank lines at every line
    for i in range(len(lines)):
        out.append(("comment@%d" % i, "\n".join(l + ("  # note: x = 1 {1/2} 2" if j == i else "") for j, l in enumerate(lines)) + "\n"))
        if i > 0 and not lines[i - 1].startswith("types") and not (i < len(lines) and lines[0].startswith("types") and "end" not in lines[:i]):
            out.append(("blank@%d" % i, "\n".join(lines[:i] + ["", "   "] + lines[i:]) + "\n"))
            out.append(("commentline@%d" % i, "\n".join(lines[:i] + ["# a comment line"] + lines[i:]) + "\n"))
    # redundant parentheses around every right-hand side / condition
    for i, l in enumerate(lines):
        m = re.match(r"^(\s*)([a-z](?:, [a-z])*) = ([^{}]+)$", l)
        if m and "(" not in m.group(3).split(",")[0][:1] and not re.search(r"[A-Z]", m.group(3)):
            parts = [p.strip() for p in m.group(3).split(",")]
            new = "%s%s = %s" % (m.group(1), m.group(2), ", ".join("(%s)" % p for p in parts))
            out.append(("paren-rhs@%d" % i, "\n".join(lines[:i] + [new] + lines[i + 1:]) + "\n"))
            new2 = "%s%s = %s" % (m.group(1), m.group(2), ", ".join("((%s))*1 + 0" % p for p in parts))
            out.append(("paren-rhs2@%d" % i, "\n".join(lines[:i] + [new2] + lines[i + 1:]) + "\n"))
        m = re.match(r"^(\s*)(if|elif|while) (.+):$", l)
        if m:
            new = "%s%s (%s):" % (m.group(1), m.group(2), m.group(3))
            out.append(("paren-cond@%d" % i, "\n".join(lines[:i] + [new] + lines[i + 1:]) + "\n"))
    # decimal <-> fraction
    for frac, dec in (("1/2", "0.5"), ("1/4", "0.25"), ("1/2", ".5"), ("1/4", "2.5e-1")):
        for mt in re.finditer(re.escape(frac), text):
            out.append(("decimal@%d" % mt.start(), text[:mt.start()] + dec + text[mt.end():]))
    # a parenthesised fraction <-> the bare decimal literal (a literal is atomic: divisors, power bases, probabilities)
    for frac, dec in (("(1/4)", "0.25"), ("(9/10)", "0.9"), ("(5/2)", "2.5"), ("(1/2)", "0.5"), ("(3/4)", ".75")):
        for mt in re.finditer(re.escape(frac), text):
            if mt.start() > 0 and re.match(r"[A-Za-z0-9_]", text[mt.start() - 1]):
                continue  # the parentheses of a call, not a bracketed number
            out.append(("bare-decimal@%d" % mt.start(), text[:mt.start()] + dec + text[mt.end():]))
    # explicit last probability
    for i, l in enumerate(lines):
        probs = re.findall(r"\{([^}]*)\}", l)
        if probs and not l.rstrip().endswith("}"):
            rest = "1 - " + " - ".join("(%s)" % p for p in probs)
            vals = F(1) - sum(parse_poly(p).const_value() for p in probs)
            for spelled in (rest, str(vals)):
                out.append(("explicit-last@%d" % i, "\n".join(lines[:i] + [l + " {%s}" % spelled] + lines[i + 1:]) + "\n"))
    # simultaneous <-> temporaries
    for i, l in enumerate(lines):
        m = re.match(r"^(\s*)([a-z](?:, [a-z])+) = (.+)$", l)
        if m:
            vs = [v.strip() for v in m.group(2).split(",")]
            rs, depth, cur = [], 0, ""
            for ch in m.group(3):  # split on top-level commas only
                depth += ch in "({"
                depth -= ch in ")}"
                if ch == "," and depth == 0:
                    rs.append(cur.strip())
                    cur = ""
                else:
                    cur += ch
            rs.append(cur.strip())
            if len(vs) == len(rs):
                tmp = ["%su%d = %s" % (m.group(1), k, r) for k, r in enumerate(rs)]
                asg = ["%s%s = u%d" % (m.group(1), v, k) for k, v in enumerate(vs)]
                out.append(("simult-temporaries@%d" % i, "\n".join(lines[:i] + tmp + asg + lines[i + 1:]) + "\n"))
    # elif <-> nested else-if
    if "elif" in text:
        res, depth_extra = [], []
        pending = 0
        for l in lines:
            m = re.match(r"^(\s*)elif (.+):$", l)
            if m:
                res.append("%selse:" % m.group(1))
                res.append("%s    if %s:" % (m.group(1), m.group(2)))
                pending += 1
                indent = m.group(1)
                continue
            if pending and re.match(r"^%send$" % indent, l):
                res.append("%s    end" % indent)
                res.append(l)
                pending = 0
                continue
            res.append(("    " + l) if pending else l)
        out.append(("elif-nested", "\n".join(res) + "\n"))
    return out


def token_edits(text, alphabet):
    """Yield (label, new text).  The text is re-rendered from tokens with single blanks; newlines kept."""
    toks = [t for t in tokenize(text) if t[0] != "eof"]

    def render(ts):
        out = []
        for k, v in ts:
            out.append("\n" if k == "nl" else v)
        s = " ".join(out)
        return re.sub(r" ?\n ?", "\n", s)

    base = render(toks)
    yield "identity", base
    for i, (k, v) in enumerate(toks):
        if k == "nl":
            yield "del-nl@%d" % i, render(toks[:i] + toks[i + 1:])
            continue
        yield "del@%d:%s" % (i, v), render(toks[:i] + toks[i + 1:])
        yield "dup@%d:%s" % (i, v), render(toks[:i] + [toks[i]] + toks[i:])
        for a in alphabet:
            if a != v:
                kind = "name" if re.match(r"[A-Za-z_]", a) else ("num" if a[0].isdigit() else "op")
                yield "sub@%d:%s->%s" % (i, v, a), render(toks[:i] + [(kind, a)] + toks[i + 1:])


def cases(tier, seed):
    out = []
    seeds = SEEDS + (SEEDS_MORE if tier != "quick" else [])
    for si, text in enumerate(seeds):
        goals = gen.goals_for(text, 2, 3)
        for label, variant in rewrites(text):
            out.append({"input": {"kind": "rewrite", "seed": si, "rule": label, "text": variant, "original": text, "goals": goals}})
    for pi, pr in enumerate(PROBES):
        out.append({"input": {"kind": "probe", "expr": pr}})
    alphabet = SUBST if tier != "quick" else SUBST[:6]
    eseeds = seeds if tier != "quick" else seeds[:3]
    seen = set()
    for si, text in enumerate(eseeds):
        for label, variant in token_edits(text, alphabet):
            if variant in seen:
                continue
            seen.add(variant)
            out.append({"input": {"kind": "edit", "seed": si, "edit": label, "text": variant}})
    vals = ["-1/2", "0", "1/3", "1/2", "2/3", "1", "3/2"]
    for k in (1, 2, 3):
        for vec in itertools.product(vals, repeat=k):
            out.append({"input": {"kind": "probvec", "probs": list(vec), "explicit_last": False}})
            if k >= 2:
                out.append({"input": {"kind": "probvec", "probs": list(vec), "explicit_last": True}})
    # decimal spellings of probability vectors, among them vectors that add up to exactly 1 only in exact arithmetic
    dvals = ["0.33", "0.56", "0.11", "0.1", "0.2", "0.7", "0.12"]
    for vec in itertools.product(dvals, repeat=3):
        if sum(F(v) for v in vec) <= 1 and (sum(F(v) for v in vec) == 1 or vec[0] <= vec[1] <= vec[2]):
            out.append({"input": {"kind": "probvec", "probs": list(vec), "explicit_last": sum(F(v) for v in vec) == 1}})
    for vec in itertools.product(dvals, repeat=2):
        out.append({"input": {"kind": "probvec", "probs": list(vec), "explicit_last": False}})
    return out


def run_case(case):
    inp = case["input"]
    kind = inp["kind"]
    if kind == "rewrite":
        res = analyse_program_goals(inp["text"], inp["goals"], 3, model_text=inp["original"])
        for v in res.get("violations", []):
            v["detail"]["rule"] = inp["rule"]
        if res["status"] == "refusal":
            # an equivalent spelling of an accepted program must be accepted as well
            orig = analyse_program_goals(inp["original"], inp["goals"][:1], 2)
            if orig["status"] not in ("refusal",):
                res["status"] = "violation"
                res["violations"].append({"sub": "rejected-spelling", "detail": {"rule": inp["rule"], "text": inp["text"],
                                                                              "refusals": res["stats"].get("refusals")}})
        return res
    if kind == "probe":
        return run_probe(inp)
    if kind == "edit":
        return run_edit(inp)
    return run_probvec(inp)


def run_probe(inp):
    from .. import polar
    from ..poly import parse_poly, Poly

    stats = {"evaluations": 1, "refusals": {}, "distinct_nontrivial": 1}
    res = {"status": "ok", "stats": stats, "violations": []}
    text = "a = 5\nb = 3\nc = 2\nx = 0\nwhile true:\n    x = %s\n    a = a + 1\nend\n" % inp["expr"]
    res["sample"] = {"probe": inp["expr"]}
    try:
        with cpu_limit(30):
            r = analyse_program_goals(text, ["x"], 3)
    except CpuTimeout:
        return res
    if r["status"] == "refusal":
        stats["refusals"] = r["stats"]["refusals"]
        res["status"] = "refusal"
        return res
    for v in r.get("violations", []):
        v["detail"]["probe"] = inp["expr"]
        res["violations"].append({"sub": "precedence", "detail": v["detail"]})
    if res["violations"]:
        res["status"] = "violation"
    return res


def run_edit(inp):
    from .. import polar, irmodel

    text = inp["text"]
    stats = {"evaluations": 1, "refusals": {}}
    res = {"status": "ok", "stats": stats, "violations": []}
    ref_ok, ref_prog, ref_err = True, None, None
    try:
        ref_prog = parse_program(text)
    except NotPolynomial:
        ref_ok = None  # inside the grammar, arithmetic not polynomial: acceptance is not judged
    except RefParseError as e:
        ref_ok, ref_err = False, str(e)
    except Exception as e:
        ref_ok, ref_err = False, "%s: %s" % (type(e).__name__, e)
    polar.reset_settings()
    pol_ok, pol_prog, pol_err = True, None, None
    try:
        with cpu_limit(20):
            pol_prog = polar.parse(text)
    except CpuTimeout:
        stats["refusals"]["timeout"] = 1
        return res
    except Exception as e:
        pol_ok, pol_err = False, exc_name(e)
    if ref_ok is None:
        stats["not_judged_nonpolynomial"] = 1
        return res
    if ref_ok is False and pol_ok and (re.search(r"keyword as variable|\('name', '(end|if|elif|else|while|types|true|false)'\)", ref_err or "")
                                       or re.search(r"(->|dup@\d+:)(end|if|elif|else|while|types|true|false)$", inp["edit"])):
        # a keyword spelled where the grammar's contextual lexer reads it as an ordinary name (`c = end`): the
        # recogniser tokenises context-free and does not judge these texts
        stats["not_judged_keyword_as_name"] = 1
        return res
    if ref_ok and not pol_ok:
        # inside the grammar but refused by Polar (static checks behind the grammar: distribution arity, integer bounds,
        # probability validation, type names ...).  The property demands rejection of texts OUTSIDE the grammar and equal
        # meaning of equivalent spellings; it does not demand acceptance of every grammatical text.  Counted, not judged.
        stats["accepted_by_reference_only"] = 1
        return res
    if ref_ok != pol_ok:
        res["violations"].append({"sub": "accept/reject", "detail": {"edit": inp["edit"], "text": text,
                                                                   "reference_parser": "accepts" if ref_ok else "rejects: %s" % ref_err,
                                                                   "polar": "accepts" if pol_ok else "rejects: %s" % pol_err}})
        res["status"] = "violation"
        return res
    if ref_ok and pol_ok:
        stats["accepted_by_both"] = 1
        stats["distinct_nontrivial"] = 1
        try:
            with cpu_limit(20):
                irp = irmodel.conv_program(pol_prog)
                m1 = Model(ref_prog, max_states=3000)
                m2 = Model(irp, max_states=3000)
                vars_ = sorted(ref_prog.assigned())
                if set(vars_) - irp.assigned():
                    res["violations"].append({"sub": "meaning", "detail": {"edit": inp["edit"], "text": text,
                                                                         "problem": "variables differ", "polar": irp.text()}})
                else:
                    from .c02 import compare_models

                    mm = compare_models(m1, m2, vars_, 2, stats)
                    if mm:
                        res["violations"].append({"sub": "meaning", "detail": {"edit": inp["edit"], "text": text, "mismatch": mm,
                                                                             "polar": irp.text()}})
        except (NotApplicable, CapHit, CpuTimeout, ZeroDivisionError, ValueError):
            stats["meaning_not_comparable"] = 1
        res["sample"] = {"edit": inp["edit"], "text": text, "accepted": True}
    else:
        stats["rejected_by_both"] = 1
    if res["violations"]:
        res["status"] = "violation"
    return res


def run_probvec(inp):
    from .. import polar

    probs = [F(p) for p in inp["probs"]]
    stats = {"evaluations": 1, "refusals": {}, "distinct_nontrivial": 1}
    res = {"status": "ok", "stats": stats, "violations": []}
    vals = ["x + %d" % (i + 1) for i in range(len(probs) + (0 if inp["explicit_last"] else 1))]
    rhs = ""
    for i, v in enumerate(vals):
        rhs += v
        if i < len(probs):
            rhs += " {%s} " % inp["probs"][i]
    text = "x = 0\nwhile true:\n    x = %s\nend\n" % rhs.strip()
    invalid = any(p < 0 for p in probs) or sum(probs) > 1
    polar.reset_settings()
    accepted = True
    err = None
    try:
        with cpu_limit(30):
            program = polar.normalize(polar.parse(text))
            sol, exact, _ = polar.solve(program, "x")
    except CpuTimeout:
        return res
    except Exception as e:
        accepted = False
        err = exc_name(e)
    res["sample"] = {"text": text, "invalid": invalid, "accepted": accepted}
    if invalid and accepted:
        res["violations"].append({"sub": "invalid-probabilities-accepted", "detail": {"text": text, "probabilities": inp["probs"],
                                                                                  "polar_E(x)": str(sol)[:120]}})
        res["status"] = "violation"
    if not invalid and not accepted:
        stats["refusals"][err] = 1
        # valid vector refused: recorded (the property only demands rejection of invalid ones), and compared below when accepted;
        # but a DECIMAL vector must not be refused when the same vector spelled with fractions is accepted
        if any("." in p for p in inp["probs"]):
            ftext = text
            for p_ in sorted(set(inp["probs"]), key=len, reverse=True):
                ftext = ftext.replace("{%s}" % p_, "{%s}" % F(p_))
            try:
                with cpu_limit(30):
                    polar.reset_settings()
                    polar.normalize(polar.parse(ftext))
                res["violations"].append({"sub": "decimal-vector-rejected", "detail": {"text": text, "refused_with": err,
                                                                                     "accepted_spelling": ftext}})
                res["status"] = "violation"
            except CpuTimeout:
                pass
            except Exception:
                pass
    if not invalid and accepted and (not inp["explicit_last"] or sum(probs) == 1):
        # explicit vectors summing to less than 1 have no defined meaning; they are not compared
        r = analyse_program_goals(text, ["x"], 3)
        for v in r.get("violations", []):
            res["violations"].append({"sub": "choice-meaning", "detail": v["detail"]})
        if res["violations"]:
            res["status"] = "violation"
    return res
