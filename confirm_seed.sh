#!/bin/bash
# usage: confirm_seed.sh <ID> <worktree> <seed out dir>  -- confirms: patch == worktree diff, tests as baseline, demo fails with / passes without
id=$1; wt=$2; out=$3
cd $wt || exit 2
git diff > /tmp/seed_out/$id.check.diff
echo "files changed: $(git diff --stat | tail -1)"
res=$(/venv/bin/python -m pytest -q -p no:cacheprovider --timeout=900 --continue-on-collection-errors 2>&1 | grep -E "passed|failed" | tail -1)
echo "tests: $res"
PYTHONDONTWRITEBYTECODE=1 timeout 900 /venv/bin/python $out/demo.py $wt >/dev/null 2>&1; echo "demo with patch exit=$?"
PYTHONDONTWRITEBYTECODE=1 timeout 900 /venv/bin/python $out/demo.py /repo >/dev/null 2>&1; echo "demo without patch exit=$?"
