"""Plain replay of every violation file in this directory, without the enumerator (one fresh process per file)."""
import glob
import os
import subprocess

HERE = os.path.dirname(os.path.abspath(__file__))
FILES = sorted(glob.glob(os.path.join(HERE, "*.json")))


def _replay(path):
    cid = os.path.basename(path).split("-")[0]
    return subprocess.run([os.path.join(os.path.dirname(HERE), "check"), cid, "--replay", path], capture_output=True, text=True)


def test_replays_reproduce():
    for path in FILES:
        r = _replay(path)
        assert r.returncode == 1 and "VIOLATION" in r.stdout, (path, r.stdout[-500:])
