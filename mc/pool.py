"""A small process pool that survives hanging / crashing workers.

Each worker is a forked process with a pipe.  The parent hands out one task at a time, enforces a
hard wall-clock backstop per task (the soft limit is a CPU-time timer inside the worker, see
`cpu_limit`), kills and replaces a worker that exceeds it, and recycles workers after `recycle`
tasks so that Polar's process-global caches cannot grow without bound.
"""
import multiprocessing as mp
import os
import signal
import sys
import time
import traceback
from multiprocessing.connection import wait


class CpuTimeout(BaseException):
    """Raised inside a worker when the CPU-time budget of a Polar call is used up.
    Derives from BaseException so that `except Exception` inside Polar / sympy cannot swallow it."""


TAINTED = False  # set when a CpuTimeout was injected: process-global caches (sympy CRootOf intervals, lru
                 # caches being filled) may be half-updated, so the worker is replaced after the current task


def tainted():
    return TAINTED


class cpu_limit:
    """Context manager: raise CpuTimeout after `secs` seconds of CPU time (user+sys) of this process."""

    def __init__(self, secs):
        self.secs = secs

    def _h(self, sig, frm):
        raise CpuTimeout()

    def __enter__(self):
        self.old = signal.signal(signal.SIGPROF, self._h)
        signal.setitimer(signal.ITIMER_PROF, self.secs)
        return self

    def __exit__(self, et, ev, tb):
        global TAINTED
        signal.setitimer(signal.ITIMER_PROF, 0)
        signal.signal(signal.SIGPROF, self.old)
        if et is not None and issubclass(et, CpuTimeout):
            TAINTED = True
        return False


def _worker_main(conn, init, func):
    try:
        signal.signal(signal.SIGINT, signal.SIG_IGN)
        if init:
            init()
        hist = []  # indices of the tasks this process has run so far (the history a result may depend on)
        while True:
            msg = conn.recv()
            if msg is None:
                break
            idx, task = msg
            try:
                res = func(task)
                if isinstance(res, dict) and res.get("violations"):
                    res["_hist"] = list(hist)
                hist.append(idx)
            except CpuTimeout:
                res = {"status": "timeout"}
            except BaseException as e:  # harness error, reported as such
                res = {"status": "harness_error", "error": "%s: %s" % (type(e).__name__, e),
                       "trace": traceback.format_exc()[-2000:]}
            if TAINTED and isinstance(res, dict):
                res["_restart_worker"] = True
            conn.send((idx, res))
            if TAINTED:
                break
    except (EOFError, KeyboardInterrupt):
        pass
    finally:
        os._exit(0)


class _W:
    def __init__(self, ctx, init, func):
        self.parent, child = ctx.Pipe()
        self.proc = ctx.Process(target=_worker_main, args=(child, init, func), daemon=True)
        self.proc.start()
        child.close()
        self.busy = None  # (idx, start time)
        self.done = 0

    def kill(self):
        try:
            self.proc.kill()
        except Exception:
            pass
        try:
            self.proc.join(5)
        except Exception:
            pass
        try:
            self.parent.close()
        except Exception:
            pass

    def stop(self):
        try:
            self.parent.send(None)
        except Exception:
            pass
        self.proc.join(2)
        if self.proc.is_alive():
            self.kill()
        else:
            try:
                self.parent.close()
            except Exception:
                pass


def run_pool(tasks, func, init=None, procs=None, recycle=40, hard_timeout=600.0, progress=None):
    """Yield (index, result) for every task, in completion order.  A task whose worker had to be
    killed yields {"status": "timeout", "hard": True}; a worker that died yields "crash"."""
    procs = procs or int(os.environ.get("VERIF_PROCS", "0")) or (os.cpu_count() or 4)
    procs = max(1, min(procs, len(tasks)))
    ctx = mp.get_context("fork")
    workers = [_W(ctx, init, func) for _ in range(procs)]
    nxt = 0
    finished = 0
    total = len(tasks)
    try:
        while finished < total:
            # hand out work
            for i, w in enumerate(workers):
                if w.busy is None and nxt < total:
                    if w.done >= recycle:
                        w.stop()
                        w = workers[i] = _W(ctx, init, func)
                    try:
                        w.parent.send((nxt, tasks[nxt]))
                    except Exception:
                        w.kill()
                        w = workers[i] = _W(ctx, init, func)
                        w.parent.send((nxt, tasks[nxt]))
                    w.busy = (nxt, time.time())
                    nxt += 1
            busy = [w for w in workers if w.busy is not None]
            ready = wait([w.parent for w in busy], timeout=1.0)
            now = time.time()
            for i, w in enumerate(workers):
                if w.busy is None:
                    continue
                if w.parent in ready:
                    try:
                        idx, res = w.parent.recv()
                    except (EOFError, OSError):
                        idx, res = w.busy[0], {"status": "crash"}
                        w.kill()
                        workers[i] = _W(ctx, init, func)
                        finished += 1
                        yield idx, res
                        continue
                    w.busy = None
                    w.done += 1
                    finished += 1
                    if isinstance(res, dict) and res.pop("_restart_worker", False):
                        w.kill()
                        workers[i] = _W(ctx, init, func)
                    yield idx, res
                elif now - w.busy[1] > hard_timeout:
                    idx = w.busy[0]
                    w.kill()
                    workers[i] = _W(ctx, init, func)
                    finished += 1
                    yield idx, {"status": "timeout", "hard": True}
                elif not w.proc.is_alive():
                    idx = w.busy[0]
                    w.kill()
                    workers[i] = _W(ctx, init, func)
                    finished += 1
                    yield idx, {"status": "crash"}
            if progress:
                progress(finished, total)
    finally:
        for w in workers:
            if w.busy is None:
                w.stop()
            else:
                w.kill()
