"""Driver alphabets: exhaustive products of small statement menus, rendered as program texts.

Programs are written as text snippets; the oracle side reads them with mc.refparser (independent
recursive-descent parser), Polar reads them with its own parser.  Enumeration is deterministic and
simplest-first.  Names e, E, I, pi, n, t, oo are never generated (the CAS re-reads them).
"""
import itertools

# ---------------------------------------------------------------------------------------------
# statement menu.  Each entry: (text lines, variables written, variables read)
# c, d: control variables (finite);  x, y, z: data variables.

S_CTRL = [
    "c = Bernoulli(1/2)",
    "c = 1 - c",
    "c = DiscreteUniform(0, 2)",
    "c = 0 {1/3} 1",
]
S_CTRL_MORE = [
    "c = Categorical(1/4, 1/4, 1/2)",
    "c = Bernoulli(p)",
    "d = Bernoulli(1/3)",
    "c = 1/2 {1/2} 1",
    "c, d = d, c",
]
S_DATA = [
    "x = x + 1",
    "x = x + c",
    "x = 2*x",
    "x = 1",
    "y = x",
    "y = y + x",
    "x, y = y, x",
    "x, y = y, x + y",
    "x = x + 1 {1/2} x - 1",
    "x, y = 0, x + y",
]
S_DATA_MORE = [
    "x = x*c",
    "y = x**2",
    "y = y + x*c",
    "x = x + 2 {1/4} x {1/4} x - y",
    "x = -x",
    "x = x/2 + 1",
    "z = y",
    "x = x + p",
    "x, y = x + y, x - y",
]
S_IF = [
    "if c == 1:\n x = x + 1\nend",
    "if c == 1:\n x = x + 1\nelse:\n x = x - y\nend",
    "if c == 0:\n x = 2*x\nelif c == 1:\n y = y + 1\nelse:\n x = y\nend",
    "if c == 1:\n c = Bernoulli(1/2)\n x = x + 1\nend",
    "if c >= 1 || c == 2:\n x = x + 1\nend",
    "if c == 1:\n x = x + 1\nelse:\n c = Bernoulli(1/2)\n y = y + c\nend",
]
S_IF_MORE = [
    "if c == 0 || c <= 1:\n y = y + 1\nelse:\n x = x + 1\nend",
    "if !(c == 0) || c == 2:\n x = x + 2\nend",
    "if c < 1:\n x = x + 2\nend",
    "if c >= 1:\n x = x + 1\n x = 2*x\nend",
    "if !(c == 1):\n y = y + 1\nend",
    "if c == 0 || c == 2:\n x = x + 1\nend",
    "if c == 1 && d == 0:\n x = x + 1\nend",
    "if c == 1:\n if d == 1:\n  x = x + 1\n else:\n  d = 1\n end\nend",
    "if c == 1:\n c = 0\nelse:\n c = 1\n x = x + 1\nend",
    "if c + d == 1:\n x = x + 1\nend",
]
S_ABSTR = [
    "g = Uniform(0, 1)\nif g < 1/4:\n x = x + 1\nend",
    "g = Uniform(0, 2)\nif g > 1/2:\n x = x + 1\nelse:\n x = x - y\nend",
    "g = Uniform(0, 1)\nh = Uniform(0, 1)\nif g < 1/2 && h > 1/4:\n x = x + 2\nend",
    "g = Uniform(0, 1)\nif g < 1/3:\n y = y + 1\nelif g < 2/3:\n x = x + 1\nend",
    "g = Uniform(0, 1)\nif g < 1/2 && c == 1:\n x = x + 1\nend",
    "g = Uniform(0, 1)\nh = g\nif h > 1/2:\n x = x + g\nend",
    "g = Uniform(0, 1)\nif g > 1/2:\n x = x + g\nend",
    "g = Uniform(0, 1)\nif g < 1/4:\n c = 1 - c\nend",
]
S_CONT = [
    "g = Normal(0, 1)\nx = x + g",
    "g = Normal(x, 1)\ny = y + g**2",
    "g = Uniform(0, 2)\nx = x + g*c",
]
S_CONT_MORE = [
    "x = Normal(x, 2)",
    "g = Laplace(1, 2)\nx = x + g",
    "g = DistExp(2)\nx = x + g**2",
    "g = Uniform(y, y + 1)\nx = g",
    "g = Gamma(2, 1/2)\nx = x + g",
    "g = Beta(2, 3)\nx = x + g",
    "if c == 1:\n g = Normal(0, 1)\nelse:\n g = Uniform(0, 1)\nend\nx = x + g",
]

S_ALIAS = [
    "if c > d:\n x = x + 1\nend",
    "if d < c:\n y = y + 1\nend",
    "if c + d == 1:\n x = x - 1\nend",
    "d = Bernoulli(1/2)",
    "c = Bernoulli(1/3)",
    "if c > d:\n y = y + 2\nelse:\n c = 1 - d\nend",
]

GUARDS = ["true", "c == 1"]
GUARDS_MORE = ["c < 2", "c == 1 && d == 0", "!(c == 0)", "c >= 1/2"]

INIT_CONST = {"c": "1", "d": "0", "x": "1", "y": "2", "z": "3", "g": "0", "h": "0"}


def _written(stmt):
    import re

    ws = set()
    for line in stmt.split("\n"):
        m = re.match(r"^\s*([a-z_0-9, ]+?)\s*=[^=]", line)
        if m and not line.strip().startswith(("if", "elif")):
            ws.update(v.strip() for v in m.group(1).split(","))
    return ws


def _mentioned(stmt):
    import re

    return set(re.findall(r"\b([a-z])\b", stmt)) - {"p", "q"}


def render(body_stmts, guard, init_mode="const", types=None):
    """init_mode: 'const' (every variable initialised to a distinct constant),
    'sym' (data variables left uninitialised -> symbolic initial values x0, y0),
    'rand' (data variables initialised by draws)."""
    used = set()
    for s in body_stmts:
        used |= _mentioned(s)
    used |= _mentioned(guard)
    written = set()
    for s in body_stmts:
        written |= _written(s)
    lines = []
    if types:
        lines.append("types")
        for v, vals in types.items():
            lines.append("    %s : Finite(%s)" % (v, ", ".join(vals)))
        lines.append("end")
    for v in sorted(used):
        if v in ("c", "d"):
            lines.append("%s = %s" % (v, INIT_CONST[v]))
        elif v == "g" and v in written:
            # g is always written before read in the menus; leave it uninitialised in 'sym'
            if init_mode != "sym":
                lines.append("g = 0")
        else:
            if init_mode == "const":
                lines.append("%s = %s" % (v, INIT_CONST[v]))
            elif init_mode == "rand":
                lines.append("%s = %s" % (v, {"x": "Bernoulli(1/4)", "y": "DiscreteUniform(1, 2)", "z": "Normal(1, 1)"}.get(v, "0")))
            # 'sym': nothing
    lines.append("while %s:" % guard)
    for s in body_stmts:
        for ln in s.split("\n"):
            lines.append("    " + ln)
    lines.append("end")
    return "\n".join(lines) + "\n"


def sequences(menu, max_len):
    for k in range(1, max_len + 1):
        for seq in itertools.product(menu, repeat=k):
            yield list(seq)


def guard_ok(seq, guard):
    """A guard over c / d is only interesting if the body writes the guard variable."""
    if guard == "true":
        return True
    w = set()
    for s in seq:
        w |= _written(s)
    need = _mentioned(guard)
    return need <= w


def assigned_vars(text):
    """Names assigned anywhere in a program text (own scan of `targets = ...` lines)."""
    import re

    vs = set()
    for line in text.split("\n"):
        line = line.split("#")[0]
        m = re.match(r"^\s*([a-z_][a-z_0-9]*(?:\s*,\s*[a-z_][a-z_0-9]*)*)\s*=(?!=)", line)
        if m:
            vs.update(v.strip() for v in m.group(1).split(","))
    return vs


def goals_for(text, max_deg=2, limit=8, skip=("g", "h")):
    """Monomials of total degree <= max_deg over the assigned variables, simplest first."""
    order = {"x": 0, "y": 1, "c": 2, "z": 3, "d": 4}
    vs = sorted((v for v in assigned_vars(text) if v not in skip), key=lambda v: (order.get(v, 9), v))
    goals = list(vs)
    if max_deg >= 2:
        squares = ["%s**2" % a for a in vs]
        products = ["%s*%s" % (a, b) for i, a in enumerate(vs) for b in vs[i + 1:]]
        # interleave so that a short goal list still contains mixed products (joint behaviour) and powers
        while squares or products:
            if squares:
                goals.append(squares.pop(0))
            if products:
                goals.append(products.pop(0))
    if max_deg >= 3:
        for a in vs:
            goals.append("%s**3" % a)
        for a in vs:
            for b in vs:
                if a != b:
                    goals.append("%s**2*%s" % (a, b))
    return goals[:limit]


# Programs that reproduce shapes singled out while reading the code (each one exercises a shortcut).
SEEDS = [
    # dependent random initial values (joint initial moments do not factor)
    "a = Bernoulli(1/2)\nb = a\ns = 0\nwhile true:\n    s = s + a*b\nend\n",
    "x = DiscreteUniform(0, 2)\ny = x + 1\nwhile true:\n    x = x + 1 {1/2} x\nend\n",
    "x = Normal(0, 1)\ny = x\nd = 0\nwhile true:\n    g = Normal(0, 1)\n    x = x + g\n    d = x - y\nend\n",
    # guard false from the start: the body must never run
    "c = 0\nx = 5\nwhile c == 1:\n    c = Bernoulli(1/2)\n    x = x + 1\nend\n",
    "x = 5\ny = 0\nwhile x < 3:\n    x = x + 1\n    y = y + 1\nend\n",
    # initial blocks that are more than a list of constants
    "x = 3\nk = x\nwhile true:\n    x = x + k\nend\n",
    "a = 1\nx = a\na = 2\nwhile true:\n    x = x + a\nend\n",
    "a = 2\nb = a + 1\nk = 2*b\ny = 0\nwhile true:\n    y = y + k\nend\n",
    "a = 1\nb = a\na = 2\ny = 0\nwhile true:\n    y = y + a + 10*b\nend\n",
    "x = Bernoulli(1/2)\nk = 2*x + 1\ny = 0\nwhile true:\n    y = y + k\n    x = x + 1\nend\n",
    # simultaneous assignment whose right-hand sides are textually identical: the draws are independent
    "a = 0\nb = 0\ns = 0\nwhile true:\n    a, b = 1 {1/2} 0, 1 {1/2} 0\n    s = s + a*b\nend\n",
    "x = 0\ny = 0\nwhile true:\n    x, y = x + 1 {1/2} x - 1, x + 1 {1/2} x - 1\nend\n",
    "a = 0\nb = 0\ns = 0\nwhile true:\n    a, b = Bernoulli(1/2), Bernoulli(1/2)\n    s = s + a*b\nend\n",
    # finite non-integer value sets whose size equals span + 1, used in a comparison / a power
    "h = 1/2\nx = 0\nc = 0\nwhile true:\n    x = DiscreteUniform(0, 2)\n    h = x + 1/2\n    if h > 1:\n        c = 1\n    else:\n        c = 0\n    end\nend\n",
    "h = 0\ny = 0\nwhile true:\n    h = 0 {1/3} 1/2 {1/3} 2\n    y = y + h**3\nend\n",
    # a branch that can never be taken holds a probabilistic choice
    "c = 0\nx = 1\nwhile true:\n    c = Bernoulli(1/2)\n    if c == 2:\n        x = 2*x {1/3} 3*x\n    else:\n        x = x + c\n    end\nend\n",
    "k = 0\nc = 0\nx = 1\nwhile true:\n    c = Bernoulli(1/2)\n    if k == 1:\n        x = 2*x {1/3} 3*x\n    else:\n        x = x + c\n    end\nend\n",
    "c = 0\nx = 1\nwhile true:\n    c = Bernoulli(1/2)\n    if c == 0:\n        x = x + 1\n    elif c == 1:\n        x = x + 2\n    else:\n        x = 0 {1/4} 2*x\n    end\nend\n",
    # elif chains without else whose non-last branches consist of one plain inner if
    "c = 0\nd = 0\nx = 0\ny = 0\nwhile true:\n    c = Bernoulli(1/2)\n    d = Bernoulli(1/2)\n    if c == 1:\n        if d == 1:\n            x = x + 1\n        end\n    elif d == 0:\n        y = y + 2\n    end\nend\n",
    "c = 0\nd = 0\nx = 0\ny = 0\nwhile true:\n    c = DiscreteUniform(0, 2)\n    d = Bernoulli(1/2)\n    if c == 0:\n        if d == 1:\n            x = x + 1\n        end\n    elif c == 1:\n        if d == 0:\n            y = y + 1\n        end\n    elif d == 1:\n        y = y + 3\n    end\nend\n",
    # two probabilistic choices, the second one assigning the control variable c (generated `_cK` names next to aliases of c)
    "c = 0\nx = 0\nwhile true:\n    x = x + 1 {1/2} x\n    c = 1 {1/2} 0\nend\n",
    "c = 0\nx = 0\nwhile true:\n    c = 1 {1/2} 0\n    x = x + c {1/2} x\n    c = 2 {1/4} c\nend\n",
    # comparisons written with the constant on the left
    "c = 0\nx = 0\ny = 0\nwhile true:\n    c = DiscreteUniform(0, 2)\n    if 0 < c:\n        x = x + 1\n    end\n    if 2 <= c:\n        y = y + 1\n    elif 1 > c:\n        y = y - 1\n    end\nend\n",
    "c = 1\nx = 0\nwhile 0 < c:\n    c = Bernoulli(1/2)\n    x = x + 1\nend\n",
    # Sin/Cos/Exp of the constant 0 (rational values), conditioned / after another assignment / under a guard
    "c = 0\ny = 0\ns = 0\nwhile true:\n    c = Bernoulli(1/2)\n    y = 3\n    if c == 1:\n        y = Cos(0)\n    end\n    s = y**2\nend\n",
    "c = 1\ny = 2\ns = 0\nwhile c == 1:\n    c = Bernoulli(1/2)\n    y = y + 1\n    y = Exp(0)\n    s = s + y**2\nend\n",
    "c = 0\ny = 5\ns = 0\nwhile true:\n    c = DiscreteUniform(0, 2)\n    if c == 0:\n        y = Sin(0)\n    elif c == 1:\n        y = 2\n    end\n    s = s + y**3\nend\n",
    # a condition over a draw made LATER in the loop body (the branch sees the previous iteration's / the initial value)
    "g = Uniform(-1, 3)\nx = 1\nwhile true:\n    if g < 0:\n        x = x + 1\n    end\n    g = Uniform(-1, 3)\nend\n",
    "g = 1\nx = 1\nwhile true:\n    if g < 0:\n        x = x + 1\n    end\n    g = Uniform(-1, 3)\nend\n",
    "g = Uniform(-1, 1)\nx = 1\nwhile true:\n    if g > 0:\n        x = x + g\n    end\n    g = Uniform(-1, 1)\nend\n",
    "g = Uniform(-1, 1)\nh = 0\nx = 1\nwhile true:\n    if g > 0:\n        x = x + h\n    end\n    g = Uniform(-1, 1)\n    h = g\nend\n",
    # guard over a variable with non-integer finite values (under cond2arithm the updates collapse to one term)
    "c = 1\nx = 1\nwhile c == 1:\n    x = 2*x\n    c = 1/2 {1/2} 1\nend\n",
    # closed forms whose special cases are merged into disjunctions `(n <= 1) | (n <= 2)` (printed route)
    "c = 1\nd = 0\nx = 1\ny = 2\nwhile true:\n    y = x**2\n    if c == 1:\n        if d == 1:\n            x = x + 1\n        else:\n            d = 1\n        end\n    end\nend\n",
    # characteristic polynomial with radical AND CRootOf roots (numeric_croots mixes floats and radicals)
    "x = 1\ny = 2\nwhile true:\n    x, y = y, x + y\n    x = x + 2 {1/4} x {1/4} x - y\nend\n",
    # conditioned constant after a lagging copy, read earlier in the body (typer fixed point)
    "w = 0\nx = 0\ns = 0\ny = 0\nc = 0\nwhile true:\n    y = s**2\n    s = 4*x**2\n    c = Bernoulli(1/2)\n    x = w\n    if c == 1:\n        x = 0\n    end\n    w = Bernoulli(1/2)\nend\n",
    # a loop variable assigned more than once in the initial block
    "x = 1\nx = 7\ny = 0\nwhile true:\n    y = Bernoulli(1/2)\n    x = x*y\nend\n",
    "c = Bernoulli(1/2)\nx = c\nx = 3*x + 2\ny = 0\nwhile true:\n    y = Bernoulli(1/2)\n    x = x*y + y\nend\n",
    # delayed constant chain (acyclic solver, zero-coefficient chains)
    "x = 0\ny = 0\nwhile true:\n    y = x\n    x = 1\nend\n",
    "x = 0\ny = 0\nz = 0\nwhile true:\n    z = y\n    y = x\n    x = x + 1\nend\n",
    # multi-assignment under a guard
    "x = 0\nc = 1\nwhile c == 1:\n    c = Bernoulli(1/2)\n    x = 1\n    x = x + 1\nend\n",
    # fibonacci / golden ratio, complex roots
    "x = 1\ny = 1\nwhile true:\n    x, y = y, x + y\nend\n",
    "x = 1\ny = 0\nwhile true:\n    x, y = -y, x\nend\n",
    # shift into a 2-cycle (cyclic solver with zero eigenvalues)
    "a = 1\nb = 2\nx = 3\ny = 4\nwhile true:\n    a = b\n    b = x\n    x, y = y, x\nend\n",
    # guard + single top-level if
    "c = 1\nd = 1\nx = 0\nwhile c == 1:\n    if d == 1:\n        c = Bernoulli(1/2)\n        d = Bernoulli(1/2)\n        x = x + 1\n    end\nend\n",
    # nested if reassigning its own condition variable, elif chain
    "c = 0\nx = 0\nwhile true:\n    if c == 0:\n        c = 1\n        x = x + 1\n    elif c == 1:\n        c = 2\n        x = x + 2\n    else:\n        c = 0\n    end\nend\n",
    # random initial values, parameters
    "x = Bernoulli(1/3)\ny = p\nwhile true:\n    x = x + y {q} x - y\n    y = y*2\nend\n",
    # non-integer finite values
    "c = 1\nx = 0\nwhile true:\n    c = 1/2 {1/2} 1\n    if c < 1:\n        x = x + 1\n    end\nend\n",
    # loop constant used in a condition and in an update
    "k = 2\nc = 0\nx = 0\nwhile true:\n    c = DiscreteUniform(1, 3)\n    if c == k:\n        x = x + k\n    end\nend\n",
]
