"""C03 — moment recurrences are exact one-step expectation identities and closed.

For every program x goal: the recurrence system R built by Polar's RecBuilder is checked on the
explored state graph of Polar's normalised program (IR model):
  * pointwise one-step identity in EVERY reachable state s at boundaries 0..N and for every equation
    M -> rhs of R:   sum_{s'} P(s -> s') M(s')  ==  rhs(s)        (fresh continuous draws integrated out)
  * init_values_dict[M] == E_0(M);  closure: monomials(rhs) subset of keys(R) + {1};
  * recurrence_matrix . E_n == E_{n+1} for n < N (coefficient extraction incl. inhomogeneous column).
"""
from ..common import base_programs, abstraction_programs, exc_name, THOROUGH
from ..model import Model, NotApplicable, CapHit
from ..refparser import parse_program, NotPolynomial
from ..poly import Poly, ZERO, ONE, parse_poly
from ..pool import cpu_limit, CpuTimeout, tainted
from .. import gen

ID = "C03"
LEVEL = "model_checking"
BUDGET = {"quick": 200, "thorough": 3000}
ASSUMPTIONS = [
    "states are those of Polar's normalised program read through mc.irmodel (its equivalence with the source is C02's subject)",
    "sympy expressions of the recurrences are converted exactly to mc.poly polynomials",
]


def rule(tier):
    return ("programs of the statement-sequence grammar x goal monomials (degree <= %d); every equation of every system, "
            "every reachable state to depth N; non-trivial = system with >= 2 equations checked on >= 2 states") % (2 if tier == "quick" else 3)


def bounds(tier):
    return {"depth_N": 3 if tier == "quick" else 4}


def cases(tier, seed):
    out = []
    N = 3 if tier == "quick" else 4
    deg = 2 if tier == "quick" else 3
    lim = 5 if tier == "quick" else 9
    for text in base_programs(tier, extended=True) + abstraction_programs(tier):
        out.append({"input": {"text": text, "goals": gen.goals_for(text, deg, lim)}, "N": N})
    return out


def poly_monomials(p, variables):
    """Set of monomials (as Poly) of p when read as a polynomial in `variables` (others are coefficients)."""
    out = set()
    for m, c in p.t.items():
        mm = tuple((v, e) for v, e in m if v in variables)
        out.add(Poly({mm: 1}))
    return out


def one_step(model, st, mono, n):
    """sum over successors of P * mono(s'), with the draws of iteration n integrated out."""
    if model.cond(model.prog.guard, st):
        outs = model.exec_stmts(model.prog.body, st, ONE, n, ())
    else:
        outs = [(st, ONE, ())]
    tot = ZERO
    for s2, pr, _ in outs:
        tot = tot + model.expect_atoms(pr * model.ev(mono, s2), only_iter=n)
    return tot


def run_case(case):
    from .. import polar, irmodel

    text = case["input"]["text"]
    N = case["N"]
    stats = {"programs": 1, "evaluations": 0, "refusals": {}, "systems": 0, "equations": 0}
    res = {"status": "ok", "stats": stats, "violations": []}
    polar.reset_settings()
    try:
        try:
            with cpu_limit(40):
                program = polar.normalize(polar.parse(text))
                irp = irmodel.conv_program(program)
                m = Model(irp, max_states=3000)
                if getattr(irp, "abstracted", None):
                    # conditions abstracted as coins: the recurrences are judged on the abstracted program, each coin
                    # carrying the probability of its condition (computed by the model)
                    m.params = irmodel.abstraction_values(irp)
                    stats["abstracted_programs"] = 1
                m.run(N + 1)
        except (NotApplicable, NotPolynomial, CapHit):
            res["status"] = "na"
            return res
        except CpuTimeout:
            stats["refusals"]["timeout@normalize"] = 1
            res["status"] = "refusal"
            return res
        except Exception as e:
            stats["refusals"][exc_name(e)] = 1
            res["status"] = "refusal"
            return res
        from recurrences import RecBuilder
        from symengine.lib.symengine_wrapper import sympify

        rb = RecBuilder(program)
        irvars = irp.assigned()
        done_eq = set()
        for goal in case["input"]["goals"]:
            if tainted():
                stats["refusals"]["skipped_after_timeout"] = stats["refusals"].get("skipped_after_timeout", 0) + 1
                continue
            gsym = sympify(goal)
            fixed = getattr(program, "fixed_constants", {})
            if gsym.free_symbols & set(fixed.keys()):
                # loop constants with a single value are replaced by it (as cli.common.get_moment does): the recurrences are
                # those of the remaining monomial
                rest = polar.sym_to_poly(gsym.subs(fixed))
                monos = [mn for mn in poly_monomials(rest, irvars) if mn != ONE]
                if len(monos) != 1:
                    stats["constant_goals"] = stats.get("constant_goals", 0) + 1
                    continue
                gsym = sympify(monos[0].to_text())
            try:
                with cpu_limit(20 if not THOROUGH else 60):
                    recs = rb.get_recurrences(gsym)
            except CpuTimeout:
                stats["refusals"]["timeout@recurrences"] = stats["refusals"].get("timeout@recurrences", 0) + 1
                continue
            except Exception as e:
                k = exc_name(e)
                stats["refusals"][k] = stats["refusals"].get(k, 0) + 1
                continue
            stats["systems"] += 1
            viol = None
            try:
                with cpu_limit(40):
                    keys = {}
                    for mk, rhs in recs.recurrence_dict.items():
                        keys[polar.sym_to_poly(mk)] = (mk, polar.sym_to_poly(rhs))
                    # closure
                    for mp_, (mk, rhs) in keys.items():
                        for mono in poly_monomials(rhs, irvars):
                            if mono != ONE and mono not in keys:
                                viol = {"kind": "not closed", "equation": str(mk), "missing": mono.to_text()}
                    # init values
                    if viol is None:
                        for mp_, (mk, rhs) in keys.items():
                            iv = polar.sym_to_poly(recs.init_values_dict[mk]).subs(m.params)
                            e0 = m.moment(mp_, 0)
                            stats["evaluations"] += 1
                            if iv != e0:
                                viol = {"kind": "initial value", "monomial": str(mk), "polar": iv.to_text(), "model": e0.to_text()}
                                break
                    # pointwise one-step identity on every reachable state
                    if viol is None:
                        for mp_, (mk, rhs) in keys.items():
                            if (str(mk), str(rhs)) in done_eq:
                                continue
                            done_eq.add((str(mk), str(rhs)))
                            stats["equations"] += 1
                            for n in range(N + 1):
                                for st, pr in m.run(n)[n].values():
                                    lhs = one_step(m, st, mp_, n)
                                    r = m.ev(rhs, st)
                                    stats["evaluations"] += 1
                                    if lhs != r:
                                        viol = {"kind": "one-step identity", "equation": "%s -> %s" % (mk, rhs), "n": n,
                                                "state": {v: p.to_text() for v, p in st.items()},
                                                "E[M(next)|state]": lhs.to_text(), "rhs(state)": r.to_text()}
                                        break
                                if viol:
                                    break
                            if viol:
                                break
                    # matrix form
                    if viol is None:
                        mons = [polar.sym_to_poly(x) for x in recs.monomials]
                        inh = recs.recurrence_matrix.shape[0] == len(mons) + 1
                        A = recs.recurrence_matrix
                        for n in range(N):
                            vec = [m.moment(x, n) for x in mons] + ([ONE] if inh else [])
                            nxt = [m.moment(x, n + 1) for x in mons] + ([ONE] if inh else [])
                            for i in range(len(vec)):
                                tot = ZERO
                                for j in range(len(vec)):
                                    a = A[i, j]
                                    if a != 0:
                                        tot = tot + polar.sym_to_poly(a).subs(m.params) * vec[j]
                                stats["evaluations"] += 1
                                if tot != nxt[i]:
                                    viol = {"kind": "matrix row", "row": i, "n": n, "A.E_n": tot.to_text(), "E_n+1": nxt[i].to_text()}
                                    break
                            if viol:
                                break
                        iv = [polar.sym_to_poly(x).subs(m.params) for x in recs.init_values_vector]
                        e0 = [m.moment(x, 0) for x in mons] + ([ONE] if inh else [])
                        if viol is None and iv != e0:
                            viol = {"kind": "init vector"}
            except CpuTimeout:
                stats["refusals"]["timeout@check"] = stats["refusals"].get("timeout@check", 0) + 1
                continue
            except (NotApplicable, polar.NotRational) as e:
                stats["uninterpretable"] = stats.get("uninterpretable", 0) + 1
                continue
            if len(keys) >= 2 and m.states_seen > N + 2:
                stats["distinct_nontrivial"] = stats.get("distinct_nontrivial", 0) + 1
                if "sample" not in res:
                    res["sample"] = {"program": text, "goal": goal,
                                     "recurrences": {str(k): str(v) for k, v in list(recs.recurrence_dict.items())[:6]},
                                     "states_checked": m.states_seen}
            if viol:
                res["violations"].append({"sub": "rec(%s)" % goal, "detail": dict(viol, program=text, ir=irp.text())})
        stats["states"] = m.states_seen
        stats["transitions"] = m.transitions
        if res["violations"]:
            res["status"] = "violation"
        return res
    finally:
        polar.reset_settings()
