"""IR model: read Polar's `Program` objects (fields only) into the AST of mc.lang, so that the same
explicit-state explorer can execute Polar's intermediate / normalised programs.

Only attributes are read (variable, condition, default, polynomials, probabilities, distribution
parameters, conditions' structure, loop_guard, initial, loop_body, typedefs).  Polar's own
`evaluate`, `to_arithm`, `get_moment`, `get_support` are never called.
"""
from fractions import Fraction

from . import lang as L
from .poly import Poly, parse_poly
from .model import NotApplicable


def expr_to_poly(e):
    s = str(e)
    try:
        return parse_poly(s)
    except Exception:
        raise NotApplicable("expression not polynomial: %s" % s)


def conv_cond(c):
    name = type(c).__name__
    if name == "TrueCond":
        return L.TrueC()
    if name == "FalseCond":
        return L.FalseC()
    if name == "Atom":
        return L.Atom(expr_to_poly(c.poly1), str(c.cop), expr_to_poly(c.poly2))
    if name == "And":
        return L.And(conv_cond(c.cond1), conv_cond(c.cond2))
    if name == "Or":
        return L.Or(conv_cond(c.cond1), conv_cond(c.cond2))
    if name == "Not":
        return L.Not(conv_cond(c.cond))
    raise NotApplicable("condition class " + name)


def conv_dist(d):
    name = type(d).__name__
    g = lambda a: expr_to_poly(getattr(d, a))
    if name == "Bernoulli":
        return L.RDraw("Bernoulli", [g("p")])
    if name == "Normal":
        return L.RDraw("Normal", [g("mu"), g("sigma2")])
    if name == "Uniform":
        return L.RDraw("Uniform", [g("a"), g("b")])
    if name == "DiscreteUniform":
        vals = [expr_to_poly(v) for v in d.values]
        return L.RDraw("DiscreteUniform", [vals[0], vals[-1]])
    if name == "Categorical":
        return L.RDraw("Categorical", [expr_to_poly(p) for p in d.probabilities])
    if name == "Laplace":
        return L.RDraw("Laplace", [g("mu"), g("b")])
    if name == "Exponential":
        return L.RDraw("DistExp", [g("lamb")])
    if name == "Gamma":
        return L.RDraw("Gamma", [g("k"), g("theta")])
    if name == "Beta":
        return L.RDraw("Beta", [g("a"), g("b"), g("scale")])
    raise NotApplicable("distribution class " + name)


def conv_assign(a):
    name = type(a).__name__
    var = str(a.variable)
    if name == "PolyAssignment":
        polys = [expr_to_poly(p) for p in a.polynomials]
        probs = [expr_to_poly(p) for p in a.probabilities]
        if len(polys) == 1 and probs[0] == Poly.const(1):
            rhs = L.RPoly(polys[0])
        else:
            rhs = L.RChoice(polys, probs, explicit_last=True)
    elif name == "DistAssignment":
        rhs = conv_dist(a.distribution)
    elif name == "FunctionalAssignment":
        rhs = L.RFunc(str(a.func), expr_to_poly(a.argument))
    else:
        raise NotApplicable("assignment class " + name)
    st = L.Assign([var], [rhs])
    cond = conv_cond(a.condition)
    if isinstance(cond, L.TrueC):
        return st
    default = str(a.default)
    # guarded assignment:  v = rhs | cond : default
    return L.If([cond], [[st]], [L.Assign([var], [L.RPoly(Poly.var(default))])])


def conv_stmt(s):
    name = type(s).__name__
    if name == "IfStatem":
        conds = [conv_cond(c) for c in s.conditions]
        branches = [[conv_stmt(x) for x in b] for b in s.branches]
        else_b = [conv_stmt(x) for x in s.else_branch] if s.else_branch else None
        if len(branches) == len(conds) + 1 and else_b is None:
            # IfTransformer appends the else branch to `branches` in place before flattening
            else_b = branches.pop()
        if getattr(s, "mutually_exclusive", False):
            # all conditions are evaluated on the state before the statement; exactly one may hold.
            # first-match semantics is equivalent iff no branch changes the condition variables of a
            # later branch AND conditions are exclusive; the model checks exclusivity at run time.
            st = L.If(conds, branches, else_b)
            st.mutually_exclusive = True
            return st
        return L.If(conds, branches, else_b)
    return conv_assign(s)


def conv_program(p):
    types = {}
    for v, t in p.typedefs.items():
        if hasattr(t, "values"):
            try:
                types[str(v)] = sorted(expr_to_poly(x).const_value() for x in t.values)
            except Exception:
                raise NotApplicable("non-numeric type values")
    init = [conv_stmt(s) for s in p.initial]
    body = [conv_stmt(s) for s in p.loop_body]
    guard = conv_cond(p.loop_guard)
    prog = L.Prog(init, guard, body, types)
    prog.abstracted = {str(k): conv_cond(v) for k, v in getattr(p, "abstracted_const_store", {}).items()}
    return prog


def abstraction_values(irp, max_states=2000):
    """For a program whose conditions were abstracted as coins `_aK = Bernoulli(_probK)` (stored condition per `_probK`):
    the probability of each stored condition at the program point of its coin, computed by executing the statements before
    the coin in the first iteration on every initial state and splitting on the condition.  -> {prob name: Poly}
    Raises NotApplicable if the condition cannot be decided by the model or its probability is not a constant."""
    from .model import Model
    from .poly import ZERO, Poly

    vals = {}
    m = Model(irp, max_states=max_states)
    init = m.initial()
    for pname, cond in irp.abstracted.items():
        idx = None
        for i, st in enumerate(irp.body):
            if isinstance(st, L.Assign) and len(st.rhss) == 1 and isinstance(st.rhss[0], L.RDraw) \
                    and st.rhss[0].dist == "Bernoulli" and st.rhss[0].params[0] == Poly.var(pname):
                idx = i
        if idx is None:
            raise NotApplicable("coin of %s not found in the loop body" % pname)
        total = ZERO
        for st0, pr0 in init.values():
            for s2, p2, _ in m.exec_stmts(irp.body[:idx], st0, pr0, 0, ()):
                for truth, p3, _ in m.cond_split(cond, s2):
                    if truth:
                        total = total + p2 * p3
        total = m.expect_atoms(total)
        if not total.is_const():
            raise NotApplicable("probability of an abstracted condition is not constant: %s" % total)
        vals[pname] = total
    return vals


def typedefs_of(p):
    """var name -> sorted list of Fractions for every Finite typedef of a Polar program."""
    out = {}
    for v, t in p.typedefs.items():
        if hasattr(t, "values"):
            vals = []
            for x in t.values:
                vals.append(expr_to_poly(x).const_value())
            out[str(v)] = sorted(vals)
    return out
