"""C01 — closed-form moments equal the exact expected values at every n.

Enumerated: all programs of the statement-sequence grammar (mc.gen) x goal monomials; for each,
all reachable states of the program's Markov chain to depth N (explicit-state, exact arithmetic).
Oracle: E_n(M) of the reference model for every n in 0..N, N >= (largest special case) + 3.
"""
import time

from .. import gen
from ..common import program_corpus, analyse_program_goals, alias_programs, cli_text_check
from ..pool import tainted

ID = "C01"
LEVEL = "model_checking"
BUDGET = {"quick": 200, "thorough": 3300}

ASSUMPTIONS = [
    "reference semantics = mc.model (self-tested by setup; bound to Polar's interpreter by path replay in C12)",
    "Fraction / mc.poly arithmetic; sympy expand/subs to evaluate Polar's closed form at integer n",
    "a Polar exception or CPU-time limit is a refusal (allowed by C01), counted, never a violation",
]


def rule(tier):
    return ("programs = seeds + all statement sequences of length <= %d over the %s menu x guards x init modes; "
            "goals = monomials of degree <= %d; a case is non-trivial when the model has >= 2 reachable "
            "states and the expected sequence E_n(M) is not constant in n") % (
        2 if tier == "quick" else 3, tier, 2 if tier == "quick" else 3)


def bounds(tier):
    return {"depth_N": "max(%d, special cases + 3)" % (4 if tier == "quick" else 6),
            "max_sequence_length": 2 if tier == "quick" else 3,
            "goal_degree": 2 if tier == "quick" else 3}


def cases(tier, seed):
    from .. import gen

    out = []
    seed_set = set(gen.SEEDS)
    for i, (text, goals) in enumerate(program_corpus("c01", tier)):
        out.append({"input": {"text": text, "goals": goals}, "N": 4 if tier == "quick" else 6, "seed": seed})
        if i < 20 or i % (6 if tier == "quick" else 3) == 0 or text in seed_set:
            # the printed CLI route for a deterministic slice of the corpus
            out.append({"input": {"text": text, "goals": goals[:3], "route": "cli-text"}, "N": 4, "seed": seed})
    # programs with symbolic parameters (probabilities, coefficients, distribution parameters, initial values): the closed
    # form must be right for ALL parameter values - the model's E_n(M) is a polynomial in p, q and the comparison is exact
    from . import c10

    par = c10.cases(tier, seed)
    for pc in (par[::3] if tier == "quick" else par):
        out.append({"input": {"text": pc["input"]["text"], "goals": pc["input"]["goals"][:4]}, "N": 4, "seed": seed})
    al = alias_programs(tier)
    for text in (al[::4] if tier == "quick" else al):
        out.append({"input": {"text": text, "goals": ["x", "y", "x*y"]}, "N": 4, "seed": seed})
    return out


def run_case(case):
    if case["input"].get("route") == "cli-text":
        stats = {"programs": 1, "evaluations": 0, "refusals": {}}
        res = {"status": "ok", "stats": stats, "violations": []}
        res["violations"] = cli_text_check(case["input"]["text"], case["input"]["goals"], case["N"], stats)
        if res["violations"]:
            res["status"] = "violation"
        return res
    return analyse_program_goals(case["input"]["text"], case["input"]["goals"], case["N"], case.get("seed", 0))
