"""Operations of the C20 history alphabet.  Run as  python -m mc.c20ops '<json list of op names>'  in a FRESH
interpreter: executes the operations in order in this one process and prints a JSON list with the canonical
result of each.  Canonical = closed forms evaluated at n = 0..6 (strings), inferred types with generated
names renamed by order of appearance, invariants as sorted renamed strings, exception type on refusal.
"""
import io
import json
import re
import sys
import contextlib

P_FIN_A = "c = 0\nx = 0\nwhile true:\n    c = DiscreteUniform(0, 2)\n    x = x + c**2\nend\n"
P_FIN_B = "d = 2\ny = 1\nwhile true:\n    d = 0 {1/2} 1 {1/4} 2\n    y = y + d**3 - d\nend\n"
P_FIN_C = "c = 0\nx = 0\nwhile true:\n    c = 0 {1/2} 1 {1/4} 3\n    x = x + c**2\nend\n"
P_FIN_D = "c = 1\nx = 0\nwhile true:\n    c = 1 {1/2} -1\n    x = x + c\nend\n"
P_TRIG = "g = 0\nx = 0\nwhile true:\n    g = Normal(0, 1)\n    s = Cos(g)\n    x = x + s\nend\n"
P_TRIG_LAG = "y = 0\ns = 5\nx = 0\nwhile true:\n    g = Normal(0, 1)\n    y = y + s\n    s = Cos(g)\n    x = x + g\nend\n"
P_CAT = "c = 1\nx = 0\nwhile true:\n    x = x + 1 {1/2} x - 1\n    c = 0 {1/3} 1\n    if c == 1:\n        x = x + c\n    end\nend\n"
P_IFS = "c = 1\nd = 0\nx = 0\ny = 0\nwhile c == 1:\n    c = Bernoulli(1/2)\n    x, y = y, x + 1\n    if d == 0:\n        d = 1\n        x = x + 1\n    else:\n        d = 0\n    end\nend\n"
P_INV = "x = 1\ny = 1\nz = 0\nwhile true:\n    x = 4*x\n    y = 2*y\n    z = z + y\nend\n"
P_FAIL = "x = 0\ny = 0\nwhile true:\n    x = x + 1\n    if x < 3:\n        y = y + 1\n    end\nend\n"
P_SENS = "x = 0\ny = 0\nwhile true:\n    x = x + 1 {p} x - 1\n    y = y + p*x\nend\n"
P_NORM9 = ("x = 1\ny = 1\nv = 0\nwhile true:\n    x = 4*x\n    y = 2*y\n" +
           "".join("    g%d = Normal(v, 1)\n" % i for i in range(9)) + "    v = v + g0\nend\n")


def _canon_names(text):
    seen = {}

    def rep(m):
        key = m.group(0)
        if key not in seen:
            pre = m.group(1)
            seen[key] = "_%s#%d" % (pre, sum(1 for v in seen.values() if v.startswith("_%s#" % pre)))
        return seen[key]

    return re.sub(r"_+([a-zA-Z]+?)(\d+)", rep, text)


def _values(sol):
    import sympy
    from mc import polar

    out = []
    for n in range(7):
        v = polar.at_n(sympy.sympify(sol), n)
        try:
            out.append(polar.sym_to_poly(v).to_text())
        except Exception:
            try:
                out.append(str(sympy.N(v, 25)))
            except Exception:
                out.append(str(v))
    return out


def _moments(text, goals, settings=None):
    from mc import polar
    from recurrences import RecBuilder

    import settings as st

    for k, v in (settings or {}).items():
        setattr(st, k, v)
    program = polar.normalize(polar.parse(text))
    rb = RecBuilder(program)
    solvers = {}
    res = {}
    for g in goals:
        sol, exact = polar.solve_cli(program, g, rb, solvers)
        res[g] = {"values": _values(sol), "exact": bool(exact)}
    # types in program order of the variables (deterministic), generated names renamed by first appearance
    order = [str(a.variable) for a in program.loop_body]
    types = ["%s:%s" % (v, sorted(str(x) for x in program.typedefs[a.variable].values))
             for v, a in zip(order, program.loop_body) if a.variable in program.typedefs and hasattr(program.typedefs[a.variable], "values")]
    return {"moments": res, "types": _canon_names(json.dumps(types))}


def _invariants(text, goals):
    from mc import polar
    from cli.actions.goals_action import GoalsAction
    from recurrences import RecBuilder

    args = polar.cli_defaults()
    args.invariants = True
    args.goals = goals
    program = polar.normalize(polar.parse(text))
    ga = GoalsAction(args)
    ga.initialize_program(program, RecBuilder(program))
    buf = io.StringIO()
    with contextlib.redirect_stdout(buf):
        ga.handle_all_goals()
    lines = [l.strip() for l in buf.getvalue().split("\n") if l.strip().endswith("= 0")]
    import sympy

    polys = []
    for l in lines:
        e = sympy.expand(sympy.sympify(l[:-3].replace("E(", "E_").replace(")", "_")))
        # normalise sign / content
        e = sympy.Poly(e).primitive()[1].as_expr()
        if str(e).startswith("-"):
            e = sympy.expand(-e)
        polys.append(str(e))
    return {"invariants": sorted(polys)}


def _sens(text, goal, param):
    from mc import polar
    from recurrences import DiffRecBuilder
    from recurrences.solver import RecurrenceSolver
    from symengine.lib.symengine_wrapper import sympify as se

    program = polar.normalize(polar.parse(text))
    drb = DiffRecBuilder(program, se(param))
    recs = drb.get_recurrences(se(goal))
    s = RecurrenceSolver(recs)
    return {"sensitivity": _values(s.get(drb.delta * se(goal)))}


P_GAM_A = "r = 2\nm = 1\nx = 0\ny = 0\nwhile true:\n    g = Gamma(r, 1)\n    h = Laplace(m, 1)\n    x = x + g\n    y = y + h**2\nend\n"
P_GAM_B = "r = 3\nm = 2\nx = 0\ny = 0\nwhile true:\n    g = Gamma(r, 1)\n    h = Laplace(m, 1)\n    x = x + g\n    y = y + h**2\nend\n"
P_CATIF = "c = 0\nx = 0\nwhile true:\n    c = Bernoulli(1/2)\n    if c == 1:\n        x = Categorical(1/2, 1/4, 1/4)\n    end\nend\n"
P_CAT3 = ("x = 0\ny = 0\ns = 0\nz = 0\nwhile true:\n    x = x + 1\n    y = Categorical(1/3, 1/3, 1/3)\n    s = s + y\n"
          "    if y == 2:\n        z = z + 1\n    end\nend\n")
OPS = {
    "catif": lambda: _moments(P_CATIF, ["x", "c", "x**2"]),
    "cat3": lambda: _moments(P_CAT3, ["z", "s", "x"]),
    "gamA": lambda: _moments(P_GAM_A, ["x", "x**2", "y"]),
    "gamB": lambda: _moments(P_GAM_B, ["x", "x**2", "y"]),
    "finA": lambda: _moments(P_FIN_A, ["x", "x**2", "c**3"]),
    "finB": lambda: _moments(P_FIN_B, ["y", "y**2", "d**3"]),
    "finC": lambda: _moments(P_FIN_C, ["x", "x**2", "c**3"]),
    "finD": lambda: _moments(P_FIN_D, ["x", "x**2", "c**3"]),
    "trig_exact": lambda: _moments(P_TRIG, ["x", "x**2"], {"exact_func_moments": True}),
    "trig_rounded": lambda: _moments(P_TRIG, ["x", "x**2"], {"exact_func_moments": False}),
    "trig_lag": lambda: _moments(P_TRIG_LAG, ["y", "x**2"], {"exact_func_moments": True}),
    "cat": lambda: _moments(P_CAT, ["x", "c", "x**2"]),
    "cat_transformed": lambda: _moments(P_CAT, ["x", "c", "x**2"], {"transform_categoricals": True}),
    "ifs": lambda: _moments(P_IFS, ["x", "y", "x*y", "d"]),
    "inv": lambda: _invariants(P_INV, ["E(x)", "E(y)", "E(z)"]),
    "inv9": lambda: _invariants(P_NORM9, ["E(x)", "E(y)"]),
    "fail": lambda: _moments(P_FAIL, ["y"]),
    "sens": lambda: _sens(P_SENS, "y", "p"),
}
# goal-order permutations: every order of the goal list of each program below (one RecBuilder / solver store per analysis, as
# GoalsAction does for a goal list); the programs are chosen for state that one goal's recurrences can leave behind for the next
# (branch auxiliaries, functional assignments in the loop body / lagged / only in the initial block, finite-power reduction)
P_FUNC_INIT = "x = Normal(0, 1)\ny = Exp(x)\nw = 0\nwhile true:\n    x = Normal(0, 1)\n    w = w + x*y\nend\n"
P_FUNC_INIT2 = "g = Normal(0, 1)\ns = Cos(g)\nx = 0\ny = 0\nwhile true:\n    g = Normal(0, 1)\n    x = x + g*s\n    y = y + s\nend\n"
PERM_PROGS = {
    "ifs": (P_IFS, ["x", "y", "x*y"]),
    "funcinit": (P_FUNC_INIT, ["y", "w", "w**2"]),
    "funcinit2": (P_FUNC_INIT2, ["s", "x", "y"]),
    "trig": (P_TRIG, ["x", "s", "x**2"]),
    "lag": (P_TRIG_LAG, ["y", "s", "x**2"]),
    "cat": (P_CAT, ["x", "c", "x**2"]),
}
import itertools as _it

for _k, (_prog, _goals) in PERM_PROGS.items():
    for _i, _perm in enumerate(_it.permutations(_goals)):
        OPS["perm_%s_%d" % (_k, _i)] = (lambda prog=_prog, perm=list(_perm), k=_k: _moments(
            prog, perm, {"exact_func_moments": True} if k in ("funcinit", "funcinit2", "trig", "lag") else None))


# ---------------------------------------------------------------------------------------------------------------------
# the CLI's own loop: ONE action object for several benchmark files (`polar.py A.prob B.prob --goals ...`).  The printed
# output for the LAST file must equal the output printed when that file is analysed alone.
P_WALK_A = "x = 0\nwhile true:\n    x = x + 1 {1/2} x - 1\nend\n"
P_WALK_B = "x = 1\nwhile true:\n    x = x + 2 {1/3} x\nend\n"
P_SENS_B = "x = 0\ny = 0\nc = 0\nwhile true:\n    c = Bernoulli(1/2)\n    x = 3*x + 2*c\n    y = y + p*x\nend\n"
P_SENS_A = "x = 0\ny = 0\nc = 0\nwhile true:\n    c = Bernoulli(1/2)\n    x = x + c\n    y = y + p*x\nend\n"
CLI_FILES = {"walkA": P_WALK_A, "walkB": P_WALK_B, "finA": P_FIN_A, "finC": P_FIN_C, "sensA": P_SENS_A, "sensB": P_SENS_B,
             "inv": P_INV, "trig": P_TRIG}
CLI_ARGS = {
    "moments": ["--goals", "E(x)", "E(x**2)", "c2(x)", "k3(x)"],
    "tails": ["--goals", "P(x >= 3) <= ?", "P(x > 1) >= ?", "--at_n", "3"],
    "sens": ["--goals", "E(y)", "-sens", "p"],
    "sens_diff": ["--goals", "E(y)", "-sens_diff", "p"],
    "cf": ["--cornish_fisher", "x", "--at_n", "4", "--cornish_fisher_order", "3"],
    "inv": ["--goals", "E(x)", "E(x**2)", "--invariants"],
}
CLI_GROUPS = {"moments": ["walkA", "walkB", "finA", "finC"], "tails": ["walkA", "walkB", "finA"], "sens": ["sensA", "sensB"],
              "sens_diff": ["sensA", "sensB"], "cf": ["walkA", "walkB", "finC"], "inv": ["walkA", "walkB"]}


def _cli(argname, files):
    import os
    import tempfile
    import shutil
    from cli import ArgumentParser
    from cli.actions import ActionFactory

    tmp = tempfile.mkdtemp(prefix="c20cli_")
    try:
        paths = []
        for f in files:
            pth = os.path.join(tmp, f + ".prob")
            with open(pth, "w") as fh:
                fh.write(CLI_FILES[f])
            paths.append(pth)
        old = sys.argv
        sys.argv = ["polar.py"] + paths + CLI_ARGS[argname]
        try:
            args = ArgumentParser().parse_args()
        finally:
            sys.argv = old
        action = ActionFactory.create_action(args)
        out = None
        for pth in paths:
            buf = io.StringIO()
            with contextlib.redirect_stdout(buf):
                action(pth)
            out = buf.getvalue()
        out = re.sub(r"\x1b\[[0-9;]*m", "", out)
        lines = [l.rstrip() for l in out.split("\n") if l.strip() and "Elapsed" not in l and tmp not in l]
        return {"printed": _canon_names("\n".join(lines))}
    finally:
        shutil.rmtree(tmp, ignore_errors=True)


for _a, _fs in CLI_GROUPS.items():
    for _f in _fs:
        OPS["cli_%s_%s" % (_a, _f)] = (lambda a=_a, f=_f: _cli(a, [f]))
        for _g in _fs:
            if _g != _f:
                OPS["cli_%s_%s_then_%s" % (_a, _g, _f)] = (lambda a=_a, f=_f, g=_g: _cli(a, [g, f]))


def run(names):
    from mc import polar

    polar.init_worker()
    import settings as st

    out = []
    for name in names:
        # the CLI sets the settings module once per invocation; an operation states its settings explicitly
        for k, v in polar.SETTINGS_DEFAULTS.items():
            setattr(st, k, v)
        try:
            r = OPS[name]()
            if name.startswith("perm"):
                r["moments"] = dict(sorted(r["moments"].items()))
        except BaseException as e:  # noqa
            r = {"exception": type(e).__name__}
        out.append(r)
    return out


if __name__ == "__main__":
    names = json.loads(sys.argv[1])
    print("C20RESULT " + json.dumps(run(names), sort_keys=True))
