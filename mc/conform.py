"""Conformance binding: stateless path exploration of Polar's *real* simulator with all random
sources scripted, compared path by path with the reference model.

The explorer is the classic prefix-replay one: run with a choice prefix, take the first enabled
alternative at every later choice point, then branch on every later point.  A choice point is a
call into a random source with more than one alternative of non-zero weight.
"""
import math
from fractions import Fraction

from .model import Model, NotApplicable
from .refparser import parse_program


class ReplayDivergence(Exception):
    """A recorded prefix could not be replayed (hard error: nondeterminism not owned)."""


class Script:
    def __init__(self, prefix):
        self.prefix = list(prefix)
        self.pos = 0
        self.points = []  # (chosen label, {label: weight}) per consumed choice point
        self.calls = 0
        self.sample_ends = []

    def choose(self, labels, weights):
        self.calls += 1
        alts = [(l, float(w)) for l, w in zip(labels, weights) if float(w) > 0]
        if not alts:
            raise ReplayDivergence("no alternative with positive weight")
        if len(alts) == 1:
            return alts[0][0]
        if self.pos < len(self.prefix):
            lab = self.prefix[self.pos]
            if lab not in [a[0] for a in alts]:
                raise ReplayDivergence("prefix choice %r not enabled among %r" % (lab, alts))
        else:
            lab = alts[0][0]
        self.points.append((lab, dict(alts)))
        self.pos += 1
        return lab


class _Patch:
    """Attribute replacement of every random source Polar's interpreter uses (harness side only)."""

    def __init__(self, script):
        self.script = script

    def __enter__(self):
        import random
        import program.distribution.bernoulli as pb
        import simulation.simulator as sim

        s = self.script
        self.saved = (random.choices, random.choice, pb.bernoulli, sim.Bar)

        def choices(population, weights=None, k=1, cum_weights=None):
            population = list(population)
            if weights is None:
                weights = [1.0] * len(population)
            lab = s.choose(list(range(len(population))), weights)
            return [population[lab]]

        def choice(seq):
            seq = list(seq)
            lab = s.choose(list(range(len(seq))), [1.0] * len(seq))
            return seq[lab]

        class B:
            @staticmethod
            def rvs(p, *a, **k):
                return s.choose([1, 0], [p, 1 - p])

        class NoBar:
            def __init__(self, *a, **k):
                pass

            def next(self):
                # called once per finished sample: remember where the sample's choice points end
                s.sample_ends.append(len(s.points))

            def finish(self):
                pass

        random.choices, random.choice, pb.bernoulli, sim.Bar = choices, choice, B, NoBar
        return self

    def __exit__(self, *a):
        import random
        import program.distribution.bernoulli as pb
        import simulation.simulator as sim

        random.choices, random.choice, pb.bernoulli, sim.Bar = self.saved
        return False


def run_schedule(program, depth, prefix, samples=1):
    """Run Polar's Simulator once under the given choice prefix.
    -> (points, states) ; states = list of dict name->float at boundaries 0..depth
    With samples > 1: states is a list (one per sample) and a third value gives the end index of each sample's points."""
    from simulation import Simulator

    sc = Script(prefix)
    with _Patch(sc):
        res = Simulator(depth).simulate(program, [], samples)
    if sc.pos < len(sc.prefix):
        raise ReplayDivergence("left-over choices in prefix")
    if samples == 1:
        run = res.samples[0]
        states = [{str(k): float(v) for k, v in st.items()} for st in run]
        return sc.points, states
    allstates = [[{str(k): float(v) for k, v in st.items()} for st in run] for run in res.samples]
    return sc.points, allstates, list(sc.sample_ends)


def check_two_samples(text, depth, program, max_runs=400):
    """Every resolution of the random choices of TWO consecutive samples in one simulate() call: each sample, taken alone,
    must be a path of the model (same labels, same states) - a sample must not inherit anything from the previous one."""
    prog = parse_program(text)
    model = Model(prog, max_states=20000)
    mdict = {}
    for pa, pr, hist in model.paths(depth):
        mdict[tuple(c[2] for c in pa)] = hist
    mm = []
    stack = [[]]
    runs = 0
    while stack and runs < max_runs:
        prefix = stack.pop()
        points, allstates, ends = run_schedule(program, depth, prefix, samples=2)
        runs += 1
        labels = [p[0] for p in points]
        bounds = [0] + ends
        for si in range(2):
            seg = tuple(labels[bounds[si]:bounds[si + 1]]) if si + 1 < len(bounds) else None
            if seg is None or seg not in mdict:
                mm.append({"kind": "sample %d of 2 is not a path of the model" % (si + 1), "choices_of_sample": list(seg or []),
                           "all_choices": labels})
                break
            hist = mdict[seg]
            for n, (ms, ps) in enumerate(zip(hist, allstates[si])):
                for v, val in ms.items():
                    fv = float(val.const_value())
                    if v not in ps or not math.isclose(ps[v], fv, rel_tol=1e-12, abs_tol=1e-12):
                        mm.append({"kind": "state of sample %d" % (si + 1), "n": n, "var": v, "model": str(val), "polar": ps.get(v)})
                        break
                else:
                    continue
                break
        if mm:
            break
        for i in range(len(prefix), len(points)):
            lab, alts = points[i]
            for alt in alts:
                if alt != lab:
                    stack.append(labels[:i] + [alt])
    return mm, runs


def explore_simulator(program, depth, max_paths=20000, twice=True):
    """All paths of Polar's simulator to `depth`.  -> list of (labels, prob, weights list, states)"""
    out = []
    stack = [[]]
    runs = 0
    while stack:
        prefix = stack.pop()
        points, states = run_schedule(program, depth, prefix)
        runs += 1
        if twice:
            p2, s2 = run_schedule(program, depth, [p[0] for p in points])
            runs += 1
            if p2 != points or s2 != states:
                raise ReplayDivergence("same schedule, different observation")
        labels = [p[0] for p in points]
        prob = 1.0
        for lab, alts in points:
            tot = sum(alts.values())
            prob *= alts[lab] / tot
        out.append((tuple(labels), prob, points, states))
        if len(out) > max_paths:
            raise NotApplicable("too many simulator paths")
        for i in range(len(prefix), len(points)):
            lab, alts = points[i]
            for alt in alts:
                if alt != lab:
                    stack.append(labels[:i] + [alt])
    return out, runs


def compare_with_model(text, depth, program=None):
    """-> (list of mismatch dicts, stats)"""
    from . import polar

    prog = parse_program(text)
    model = Model(prog, max_states=20000)
    mpaths = model.paths(depth)
    for pa, pr, hist in mpaths:
        if not pr.is_const():
            raise NotApplicable("symbolic probability")
        for st in hist:
            for v in st.values():
                if not v.is_const():
                    raise NotApplicable("symbolic value")
    if program is None:
        program = polar.parse(text)
    ppaths, runs = explore_simulator(program, depth)
    mm = []
    mdict = {}
    for pa, pr, hist in mpaths:
        key = tuple(c[2] for c in pa)
        mdict[key] = (pa, pr.const_value(), hist)
    pdict = {p[0]: p for p in ppaths}
    if set(mdict) != set(pdict):
        only_m = sorted(set(mdict) - set(pdict))[:3]
        only_p = sorted(set(pdict) - set(mdict))[:3]
        mm.append({"kind": "path sets differ", "only_model": only_m, "only_polar": only_p})
    tot = 0.0
    for key, (labels, prob, points, states) in pdict.items():
        tot += prob
        if key not in mdict:
            continue
        pa, mpr, hist = mdict[key]
        if abs(float(mpr) - prob) > 1e-12:
            mm.append({"kind": "path probability", "path": key, "model": str(mpr), "polar": prob})
        for (sid, idx, lab, p), (plab, alts) in zip(pa, points):
            w = alts[plab] / sum(alts.values())
            if abs(float(p.const_value()) - w) > 1e-12:
                mm.append({"kind": "choice weight", "path": key, "model": str(p), "polar": w})
                break
        for n, (ms, ps) in enumerate(zip(hist, states)):
            for v, val in ms.items():
                fv = float(val.const_value())
                if v not in ps or not math.isclose(ps[v], fv, rel_tol=1e-12, abs_tol=1e-12):
                    mm.append({"kind": "state", "path": key, "n": n, "var": v, "model": str(val), "polar": ps.get(v)})
                    break
            else:
                continue
            break
    if abs(tot - 1.0) > 1e-9:
        mm.append({"kind": "total probability", "polar": tot})
    return mm, {"paths": len(pdict), "runs": runs, "model_paths": len(mdict)}
