"""C14 — synthesised invariants and solvable loops agree with the unsolvable loop.

Unsolvable loops (the 9 benchmark files + a generated family with non-linear dependency cycles,
optional probabilistic choice / effective side variables) x candidate sets x degree x {k = 1, general k}.
The reference model explores the ORIGINAL loop with symbolic initial values (values are polynomials in
x0, y0, ...) to depth N; for every returned pair (Q, f):  E(Q(state_n)) == f(n)  for n = 0..N as polynomials
in the initial values and the free coefficient symbols.  Every synthesised solvable loop is read through
mc.irmodel and executed: each retained variable and the fresh variable standing for Q must reproduce
E_n(v) resp. E_n(Q) of the original loop.
"""
import glob
import itertools
import os

from ..common import exc_name, build_model, THOROUGH
from ..model import Model, NotApplicable, CapHit
from ..refparser import NotPolynomial, RefParseError
from ..poly import Poly, parse_poly
from ..pool import cpu_limit, CpuTimeout, tainted

ID = "C14"
LEVEL = "model_checking"
BUDGET = {"quick": 230, "thorough": 3300}
ASSUMPTIONS = [
    "E(Q(state_n)) is computed by the reference model as an exact polynomial in the symbolic initial values; free coefficient "
    "symbols of Q (_uK) are kept symbolic, so agreement holds for all their values",
    "nonlinsolve / solver CPU limits are refusals",
]

GEN = []
for a, zc in itertools.product(["1", "2", "-1", "1/2"], ["none", "toggle", "bern", "choice"]):
    pre = {"none": "", "toggle": "    z = 1 - z\n", "bern": "    z = Bernoulli(1/2)\n", "choice": "    z = z + 1 {1/2} z\n"}[zc]
    zt = "" if zc == "none" else " + z"
    zt2 = "" if zc == "none" else " + 2*z"
    init = "" if zc == "none" else "z = 0\n"
    GEN.append(init + "while true:\n" + pre + "    x = %s*x + y**2%s\n    y = %s*y - y**2%s\nend\n" % (a, zt, a, zt2))
GEN += [
    "x = DiscreteUniform(1, 3)\nb = Bernoulli(1/2)\ny = x + b\nwhile true:\n    x, y = x + x*y, x/3 + 2*y/3 + x*y\nend\n",
    "x = Bernoulli(1/2)\ny = 2*x + 1\nz = 0\nwhile true:\n    z = 1 - z\n    x = 2*x + y**2 + z\n    y = 2*y - y**2 + 2*z\nend\n",
    "z = 0\nw = 1\nwhile true:\n    z = 1 - z\n    x = 2*x + y**2 + z\n    y = 2*y - y**2 + 2*z\n    w = 2*w\n    u = 3*u + v**2 + w\n    v = 3*v - v**2 + w\nend\n",
    "u = 1\nw = 5\nwhile true:\n    x = 2*x + y**2 + w\n    y = 2*y - y**2 + w\n    w = u\n    u = 3\nend\n",
    "while true:\n    x, y = x + x*y, 2*y - x*y\nend\n",
    "x = 1\ny = 2\nwhile true:\n    x, y = x + y**2 {1/2} x - y**2, y + 1\nend\n",
    "while true:\n    x = x + y*w\n    y = y - y*w\n    w = w + x*y\nend\n",
    "x = 1\ny = 1\nwhile true:\n    g = Normal(0, 1)\n    x, y = x*y + g, 3*y - x*y + g**2\nend\n",
]


def rule(tier):
    return ("9 unsolvable benchmark loops + %d generated loops x candidate sets (all defective source variables, and pairs) x degree <= %d "
            "x {k = 1, general}; non-trivial = call that returns at least one (Q, f) pair or synthesised loop") % (len(GEN), 2 if tier == "quick" else 3)


def bounds(tier):
    return {"depth_N": 4, "degree": 2 if tier == "quick" else 3}


def cases(tier, seed):
    out = []
    repo = os.environ.get("POLAR_REPO", "/repo")
    files = sorted(glob.glob(os.path.join(repo, "tests", "unsolvable_benchmarks", "*.prob")))
    texts = [(os.path.basename(f), open(f).read()) for f in files] + [("gen%d" % i, t) for i, t in enumerate(GEN)]
    degs = (1, 2) if tier == "quick" else (1, 2, 3)
    for name, text in texts:
        for deg in degs:
            for k in (1, None):
                out.append({"input": {"kind": "inv", "name": name, "text": text, "deg": deg, "k": k}})
            out.append({"input": {"kind": "loop", "name": name, "text": text, "deg": deg}})
    # the same loop analysed twice in one process with different initial values of its effective variable: the second result
    # must not depend on the first (the two analyses are one case = one process history of length 2)
    tpl = "z = %s\nwhile true:\n    x = 2*x + y**2 + z\n    y = 2*y - y**2 + 2*z\n    z = 3*z\nend\n"
    for za, zb in (("1", "5"), ("5", "1"), ("0", "2")):
        for k in (1, None):
            out.append({"input": {"kind": "inv", "name": "pair", "before": tpl % za, "text": tpl % zb, "deg": 1, "k": k}})
        out.append({"input": {"kind": "loop", "name": "pair", "before": tpl % za, "text": tpl % zb, "deg": 1}})
    return out


def run_case(case):
    from .. import polar, irmodel
    import sympy

    inp = case["input"]
    text = inp["text"]
    if not text.endswith("\n"):
        text += "\n"
    N = 4
    stats = {"programs": 1, "evaluations": 0, "refusals": {}}
    res = {"status": "ok", "stats": stats, "violations": []}
    try:
        with cpu_limit(30):
            model = build_model(text, max_states=2000)
            model.run(N)
    except (NotApplicable, NotPolynomial, CapHit, CpuTimeout, RefParseError) as e:
        res["status"] = "na"
        stats["model_not_applicable"] = 1
        return res
    polar.reset_settings()
    try:
        with cpu_limit(30):
            program = polar.normalize(polar.parse(text))
    except CpuTimeout:
        stats["refusals"]["timeout@normalize"] = 1
        res["status"] = "refusal"
        return res
    except Exception as e:
        stats["refusals"][exc_name(e)] = 1
        res["status"] = "refusal"
        return res
    from unsolvable_analysis import UnsolvInvSynthesizer, SolvLoopSynthesizer
    from symengine.lib.symengine_wrapper import sympify as se

    if inp.get("before"):
        try:
            with cpu_limit(120):
                pb = polar.normalize(polar.parse(inp["before"]))
                cb = [se(v) for v in sorted(str(v) for v in pb.defective_variables if v in pb.original_variables)]
                if inp["kind"] == "inv":
                    UnsolvInvSynthesizer.synth_inv(cb, inp["deg"], pb, inp["k"])
                else:
                    SolvLoopSynthesizer.synth_loop(cb, inp["deg"], pb)
        except CpuTimeout:
            stats["refusals"]["timeout@before"] = 1
            res["status"] = "refusal"
            return res
        except Exception as e:
            stats["refusals"]["before:" + exc_name(e)] = 1
        polar.reset_settings()
    cand = sorted((str(v) for v in program.defective_variables if v in program.original_variables))
    if not cand:
        res["status"] = "na"
        return res
    cvars = [se(v) for v in cand]

    def check_pairs(pairs, tag):
        for Q, f in pairs or []:
            try:
                Qp = polar.sym_to_poly(sympy.sympify(str(Q)))
            except Exception:
                stats["uninterpretable"] = stats.get("uninterpretable", 0) + 1
                continue
            fs = sympy.sympify(f)
            for n in range(N + 1):
                want = model.moment(Qp, n)
                verdict, how, txt = polar.compare_value(polar.at_n(fs, n), want)
                stats["evaluations"] += 1
                if verdict == "neq":
                    res["violations"].append({"sub": "%s deg=%s k=%s" % (tag, inp["deg"], inp.get("k")),
                                              "detail": {"program": text, "Q": str(Q), "f": str(f)[:300], "n": n,
                                                         "E(Q(state_n))": want.to_text()[:300], "f(n)": txt[:300]}})
                    return
        if pairs:
            stats["distinct_nontrivial"] = stats.get("distinct_nontrivial", 0) + 1

    lim = 60 if not THOROUGH else 300
    if inp["kind"] == "inv":
        try:
            with cpu_limit(lim):
                sols = UnsolvInvSynthesizer.synth_inv(cvars, inp["deg"], program, inp["k"])
        except CpuTimeout:
            stats["refusals"]["timeout@synth"] = 1
            res["status"] = "refusal"
            return res
        except Exception as e:
            stats["refusals"][exc_name(e)] = 1
            res["status"] = "refusal"
            return res
        try:
            with cpu_limit(60):
                check_pairs(sols, "invariant")
        except CpuTimeout:
            stats["refusals"]["timeout@compare"] = 1
        res["sample"] = {"program": text, "candidates": cand, "deg": inp["deg"], "k": inp["k"],
                         "solutions": [(str(q), str(f)[:120]) for q, f in (sols or [])][:3]}
    else:
        try:
            with cpu_limit(lim):
                invs, progs = SolvLoopSynthesizer.synth_loop(cvars, inp["deg"], program)
        except CpuTimeout:
            stats["refusals"]["timeout@synth"] = 1
            res["status"] = "refusal"
            return res
        except Exception as e:
            stats["refusals"][exc_name(e)] = 1
            res["status"] = "refusal"
            return res
        try:
            with cpu_limit(90):
                check_pairs(invs, "loop-invariant")
                for pi, sp in enumerate(progs or []):
                    try:
                        irp = irmodel.conv_program(sp)
                        sm = Model(irp, max_states=200)
                        sm.run(N)
                    except (NotApplicable, CapHit):
                        stats["uninterpretable"] = stats.get("uninterpretable", 0) + 1
                        continue
                    stats["states"] = stats.get("states", 0) + sm.states_seen
                    stats["transitions"] = stats.get("transitions", 0) + sm.transitions
                    for v in sorted(irp.assigned()):
                        if v.startswith("_t") or (v not in model.vars and not v.startswith("_s")):
                            # only source variables and the fresh combination variable are compared; auxiliaries of the
                            # normalised loop (_old3, _x1, ...) have no counterpart in the source program
                            continue
                        if v.startswith("_s"):
                            if not invs or pi >= len(invs):
                                continue
                            target = polar.sym_to_poly(sympy.sympify(str(invs[pi][0])))
                        else:
                            target = Poly.var(v)
                        for n in range(N + 1):
                            got = sm.moment(Poly.var(v), n)
                            want = model.moment(target, n)
                            stats["evaluations"] += 1
                            if got != want:
                                res["violations"].append({"sub": "synthesised-loop deg=%s var=%s" % (inp["deg"], v),
                                                          "detail": {"program": text, "synthesised": irp.text(), "n": n,
                                                                     "value_in_synthesised_loop": got.to_text()[:300],
                                                                     "E_n_in_original": want.to_text()[:300]}})
                                break
                        if res["violations"]:
                            break
                    if res["violations"]:
                        break
                if progs:
                    stats["distinct_nontrivial"] = stats.get("distinct_nontrivial", 0) + 1
        except CpuTimeout:
            stats["refusals"]["timeout@compare"] = 1
        res["sample"] = {"program": text, "candidates": cand, "deg": inp["deg"], "synthesised_programs": len(progs or [])}
    stats["states"] = stats.get("states", 0) + model.states_seen
    stats["transitions"] = stats.get("transitions", 0) + model.transitions
    if res["violations"]:
        res["status"] = "violation"
    return res
