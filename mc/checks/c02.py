"""C02 — every normalisation pass preserves the distribution over the source variables.

Translation validation by bounded exhaustive bisimulation: the real `normalize_program` is run with
`execute` of every Transformer wrapped (attribute replacement from the harness); after each pass
returns, the in-place mutated Program is read into the model's AST (mc.irmodel, fields only) and
explored to depth N; the joint distribution of the source variables at every boundary 0..N must equal
that of the reference model of the source text.  Settings: default, transform_categoricals,
cond2arithm.  Snapshot 0 is the output of Polar's parser.
"""
import itertools

from ..common import base_programs, alias_programs, abstraction_programs, exc_name, build_model
from ..model import Model, NotApplicable, CapHit
from ..refparser import parse_program, NotPolynomial
from ..poly import Poly, ZERO, ONE, parse_poly
from ..pool import cpu_limit, CpuTimeout

ID = "C02"
LEVEL = "model_checking"
BUDGET = {"quick": 200, "thorough": 3000}
ASSUMPTIONS = [
    "IR programs are interpreted by reading object fields only; the guarded assignment `v = rhs | cond : default` is "
    "given the meaning stated in the property (else-branch assigns the default variable)",
    "programs with continuous draws are compared through all mixed moments of the source variables up to degree 3 "
    "(not in law); discrete programs are compared as exact state->probability maps",
]

SETTINGS = [{}, {"transform_categoricals": True}, {"cond2arithm": True}]

PASSES = ["LoopGuardTransformer", "DistTransformer", "IfTransformer", "MultiAssignTransformer", "ConditionsReducer",
          "ConstantsTransformer", "UpdateInfoTransformer", "TypeInferer", "ConditionsNormalizer", "ConditionsToArithm"]


def rule(tier):
    return ("programs of the statement-sequence grammar x 3 settings x every pass boundary; compared objects are the exact "
            "joint distributions of the source variables at n = 0..N; non-trivial = (program, setting) whose source model has "
            ">= 2 reachable states and at least 5 snapshots interpreted")


def bounds(tier):
    return {"depth_N": 3 if tier == "quick" else 4, "settings": SETTINGS, "passes": PASSES}


def cases(tier, seed):
    out = []
    N = 3 if tier == "quick" else 4
    for text in base_programs(tier, extended=True) + alias_programs(tier) + abstraction_programs(tier):
        for si, st in enumerate(SETTINGS):
            if si == 1 and "{" not in text:
                continue
            out.append({"input": {"text": text, "settings": st}, "N": N})
    return out


def snapshot_normalize(program, snaps):
    """Run Polar's real normalize_program, recording a converted snapshot after every pass."""
    import program.transformer as T
    from .. import irmodel

    saved = []
    for name in PASSES:
        cls = getattr(T, name)
        orig = cls.execute

        def wrapped(self, prog, _orig=orig, _name=name):
            r = _orig(self, prog)
            try:
                snaps.append((_name, irmodel.conv_program(r), None))
            except NotApplicable as e:
                snaps.append((_name, None, str(e)))
            return r

        saved.append((cls, orig))
        cls.execute = wrapped
    try:
        result = T.normalize_program(program)
    finally:
        for cls, orig in saved:
            cls.execute = orig
    return result, snaps


def projected(model, n, vars_):
    d = {}
    for st, pr in model.run(n)[n].values():
        key = tuple(model.lookup(st, v).key() for v in vars_)
        d[key] = d.get(key, ZERO) + pr
    return {k: v for k, v in d.items() if not v.is_zero()}


def has_atoms(model):
    return bool(model.atoms)


def monomials(vars_, deg):
    out = []
    for d in range(1, deg + 1):
        for combo in itertools.combinations_with_replacement(vars_, d):
            p = ONE
            for v in combo:
                p = p * Poly.var(v)
            out.append(p)
    return out


def compare_models(src, ir, vars_, N, stats):
    """-> mismatch dict or None"""
    for n in range(N + 1):
        src.run(n)
        ir.run(n)
        if has_atoms(src) or has_atoms(ir):
            for m in monomials(vars_, 3 if len(vars_) <= 3 else 2):
                a, b = src.moment(m, n), ir.moment(m, n)
                stats["evaluations"] += 1
                if a != b:
                    return {"n": n, "moment": m.to_text(), "source": a.to_text(), "ir": b.to_text()}
        else:
            a, b = projected(src, n, vars_), projected(ir, n, vars_)
            stats["evaluations"] += 1
            if a != b:
                ka = sorted(set(a) ^ set(b))[:2]
                diff = [(k, a[k].to_text(), b[k].to_text()) for k in a if k in b and a[k] != b[k]][:2]
                return {"n": n, "vars": vars_, "states_only_in_one": str(ka), "prob_differs": str(diff)}
    return None


def _feeding_vars(irp, seeds):
    """Variables that (transitively) feed the given ones through assignments of the loop body, plus the seeds."""
    from .. import lang as L

    deps = {}

    def walk(stmts):
        for st in stmts:
            if isinstance(st, L.If):
                for b in st.branches:
                    walk(b)
                if st.else_branch:
                    walk(st.else_branch)
            else:
                for t, r in zip(st.targets, st.rhss):
                    deps.setdefault(t, set()).update(r.reads())

    walk(irp.body)
    out = set(seeds)
    changed = True
    while changed:
        changed = False
        for v in list(out):
            for u in deps.get(v, ()):
                if u not in out:
                    out.add(u)
                    changed = True
    return out


def run_case(case):
    from .. import polar, irmodel

    text = case["input"]["text"]
    N = case["N"]
    stats = {"programs": 1, "evaluations": 0, "refusals": {}, "snapshots": 0, "snapshots_uninterpretable": 0}
    res = {"status": "ok", "stats": stats, "violations": []}
    try:
        src_prog = parse_program(text)
        src = Model(src_prog, max_states=5000)
        src.run(N)
    except (NotApplicable, NotPolynomial, CapHit):
        res["status"] = "na"
        return res
    src_vars = sorted(src_prog.assigned())
    polar.reset_settings(**case["input"]["settings"])
    snaps = []
    snap0 = None
    try:
        try:
            with cpu_limit(40):
                program = polar.parse(text)
                snap0 = irmodel.conv_program(program)
                snapshot_normalize(program, snaps)
        except CpuTimeout:
            stats["refusals"]["timeout"] = 1
            res["status"] = "refusal"
            return res
        except NotApplicable:
            res["status"] = "na"
            return res
        except Exception as e:
            stats["refusals"][exc_name(e)] = 1
            # passes that completed before the exception are still checked below
            if snap0 is None:
                res["status"] = "refusal"
                return res
        allsnaps = [("Parser", snap0, None)] + list(snaps)
        interpreted = 0
        for i, (name, irp, err) in enumerate(allsnaps):
            stats["snapshots"] += 1
            if irp is None:
                stats["snapshots_uninterpretable"] += 1
                continue
            try:
                with cpu_limit(30):
                    irm = Model(irp, max_states=5000)
                    if getattr(irp, "abstracted", None):
                        # conditions abstracted as independent coins: give each coin the probability of its condition
                        # (computed by the model at the coin's program point); the distribution must still be the source's
                        irm.params = irmodel.abstraction_values(irp)
                        stats["snapshots_with_abstraction"] = stats.get("snapshots_with_abstraction", 0) + 1
                    present = [v for v in src_vars if v in irp.assigned()]
                    removed = [v for v in src_vars if v not in irp.assigned()]
                    mm = compare_models(src, irm, present, N, stats)
                    # a removed source variable must have been a deterministic constant
                    if mm is None:
                        for v in removed:
                            vals = set()
                            for n in range(N + 1):
                                for st, pr in src.run(n)[n].values():
                                    vals.add(src.lookup(st, v).key())
                            if len(vals) > 1:
                                mm = {"removed_variable": v, "values_in_source": len(vals)}
                                break
                    stats["states"] = stats.get("states", 0) + irm.states_seen
                    stats["transitions"] = stats.get("transitions", 0) + irm.transitions
            except (NotApplicable, CapHit) as e:
                stats["snapshots_uninterpretable"] += 1
                continue
            except CpuTimeout:
                stats["refusals"]["timeout@model"] = stats["refusals"].get("timeout@model", 0) + 1
                continue
            interpreted += 1
            if mm and getattr(irp, "abstracted", None):
                # classification: if the distribution over the source variables that do NOT occur in an abstracted
                # condition (nor feed one) is preserved, the difference is exactly the known call-site finding "the coin
                # is independent of the condition's own variables, so their joint law with the rest changes"
                cond_vars = set()
                for cnd in irp.abstracted.values():
                    cond_vars |= cnd.vars()
                # close under aliases: variables assigned from / feeding those variables (alias chains _r = g - 1/4, h = g)
                feeds = _feeding_vars(irp, cond_vars)
                rest = [v for v in present if v not in feeds]
                try:
                    with cpu_limit(30):
                        irm2 = Model(irp, max_states=5000)
                        irm2.params = irm.params
                        mm2 = compare_models(src, irm2, rest, N, stats)
                except (NotApplicable, CapHit, CpuTimeout):
                    mm2 = mm
                if mm2 is None:
                    res["violations"].append({"sub": "abstraction-joint-law",
                                              "detail": {"mismatch": mm, "program": text, "settings": case["input"]["settings"],
                                                         "condition_variables": sorted(feeds), "ir": irp.text()}})
                    break
            if mm:
                res["violations"].append({"sub": "after:%d:%s" % (i, name),
                                          "detail": {"mismatch": mm, "program": text, "settings": case["input"]["settings"],
                                                     "ir": irp.text()}})
                break  # later snapshots inherit the difference
        stats["states"] = stats.get("states", 0) + src.states_seen
        stats["transitions"] = stats.get("transitions", 0) + src.transitions
        if interpreted >= 5 and len(src.dists[-1]) >= 2:
            stats["distinct_nontrivial"] = 1
            res["sample"] = {"program": text, "settings": case["input"]["settings"],
                             "passes_interpreted": [s[0] for s in allsnaps if s[1] is not None],
                             "final_ir": allsnaps[-1][1].text() if allsnaps[-1][1] is not None else None}
        if res["violations"]:
            res["status"] = "violation"
        return res
    finally:
        polar.reset_settings()
