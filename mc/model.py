"""Reference model: explicit-state exploration of the Markov chain of a loop program.

Semantics implemented from the language definition (property C01's statement), not from Polar's
code: statements in order; first matching if/elif/else branch; probabilistic choice and draws are
independent; simultaneous assignment reads old values; before each iteration the guard is evaluated
and a false guard freezes the state (stutter); a variable that is read before ever being set has
the symbolic initial value `<name>0`; a name never assigned anywhere is a symbolic parameter.

State = valuation var -> Poly (over parameters / initial-value symbols / atoms of continuous draws).
Frontier at depth n = dict state_key -> (state, probability Poly).  Equal successor states are
merged by adding probabilities (sound: the language is Markov in the full valuation).
"""
import hashlib
from fractions import Fraction
from math import factorial

from .poly import Poly, ZERO, ONE
from . import lang as L


class NotApplicable(Exception):
    """The program is outside the class the model can interpret (e.g. symbolic value in a condition)."""


class CapHit(Exception):
    pass


def _double_fact(k):
    r = 1
    while k > 1:
        r *= k
        k -= 2
    return r


class AtomInfo:
    __slots__ = ("order", "kind", "params")

    def __init__(self, order, kind, params):
        self.order, self.kind, self.params = order, kind, params


def atom_moment(info, k):
    """E[A^k] for a standardised atom A; returns Poly (may mention earlier atoms through params)."""
    kind = info.kind
    if k == 0:
        return ONE
    if kind == "Z":  # N(0, s2)
        if k % 2:
            return ZERO
        return (info.params[0] ** (k // 2)) * _double_fact(k - 1)
    if kind == "U":  # Uniform(0,1)
        return Poly.const(Fraction(1, k + 1))
    if kind == "L":  # Laplace(0,1)
        return ZERO if k % 2 else Poly.const(factorial(k))
    if kind == "X":  # Exp(1)
        return Poly.const(factorial(k))
    if kind == "G":  # Gamma(shape,1)
        sh = info.params[0].const_value()
        r = Fraction(1)
        for i in range(k):
            r *= sh + i
        return Poly.const(r)
    if kind == "B":  # Beta(a,b)
        a = info.params[0].const_value()
        b = info.params[1].const_value()
        r = Fraction(1)
        for i in range(k):
            r *= (a + i) / (a + b + i)
        return Poly.const(r)
    raise NotApplicable("atom kind " + kind)


class Model:
    def __init__(self, prog, max_states=50000):
        self.prog = prog
        self.vars = prog.assigned()
        self.max_states = max_states
        self.atoms = {}  # name -> AtomInfo
        self.transitions = 0
        self.states_seen = 0
        self.reach = {}  # var -> set of Poly values ever held (after any statement)
        self.guard_false_seen = False
        self.dists = None
        self.track_paths = False
        self.params = {}  # optional values for symbolic parameters (name -> Poly), e.g. abstracted probabilities

    # -- helpers ----------------------------------------------------------------------------------
    def lookup(self, state, v):
        if v in state:
            return state[v]
        if v in self.vars:
            return Poly.var(v + "0")
        if v in self.params:
            return self.params[v]
        return Poly.var(v)  # symbolic parameter

    def ev(self, poly, state):
        vs = poly.variables()
        if not vs:
            return poly
        return poly.subs({v: self.lookup(state, v) for v in vs})

    def ev_num(self, poly, state):
        p = self.ev(poly, state)
        if not p.is_const():
            raise NotApplicable("non-numeric value %s in a condition" % p)
        return p.const_value()

    def cond(self, c, state):
        if isinstance(c, L.TrueC):
            return True
        if isinstance(c, L.FalseC):
            return False
        if isinstance(c, L.Atom):
            a = self.ev_num(c.lhs, state)
            b = self.ev_num(c.rhs, state)
            op = c.cop
            if op == "==":
                return a == b
            if op == "/=":
                return a != b
            if op == "<":
                return a < b
            if op == "<=":
                return a <= b
            if op == ">":
                return a > b
            if op == ">=":
                return a >= b
            raise NotApplicable("cop " + op)
        if isinstance(c, L.And):
            # no short-circuit difference: both sides are total
            return self.cond(c.a, state) and self.cond(c.b, state)
        if isinstance(c, L.Or):
            return self.cond(c.a, state) or self.cond(c.b, state)
        if isinstance(c, L.Not):
            return not self.cond(c.a, state)
        raise NotApplicable("condition %r" % c)

    # -- conditions that mention one uniform atom: split into the event and its complement -----------------
    def cond_split(self, c, state):
        """-> list of (truth, probability Poly, state).  Numeric conditions give one entry.  A comparison whose two
        sides differ by alpha + beta*A with A a Uniform(0,1) atom (alpha, beta rational) splits the state: on each side A
        is replaced by the conditioned (again uniform) variable  lo + (hi-lo)*A'  with a fresh standard atom A'."""
        if isinstance(c, (L.TrueC, L.FalseC)):
            return [(isinstance(c, L.TrueC), ONE, state)]
        if isinstance(c, L.Atom):
            d = self.ev(c.lhs, state) - self.ev(c.rhs, state)
            if d.is_const():
                return [(self.cond(c, state), ONE, state)]
            vs = d.variables()
            if len(vs) != 1:
                raise NotApplicable("condition over %s" % sorted(vs))
            a = next(iter(vs))
            info = self.atoms.get(a)
            if info is None or info.kind != "U" or d.degree() != 1:
                raise NotApplicable("condition over a non-uniform or non-affine value")
            beta = d.t.get(((a, 1),), Fraction(0))
            alpha = d.t.get((), Fraction(0))
            if len(d.t) > 2 or beta == 0:
                raise NotApplicable("condition not affine in one atom")
            t = -alpha / beta  # alpha + beta*A cop 0
            op = c.cop
            if beta < 0:
                op = {"<": ">", "<=": ">=", ">": "<", ">=": "<=", "==": "==", "/=": "/="}[op]
            t = min(max(t, Fraction(0)), Fraction(1))
            lo_name = self._cond_atom(a, "lo", t)
            hi_name = self._cond_atom(a, "hi", t)
            low = (Poly.const(t) * Poly.var(lo_name), Poly.const(t))            # A | A < t  = t*A'
            high = (Poly.const(t) + Poly.const(1 - t) * Poly.var(hi_name), Poly.const(1 - t))  # A | A > t
            if op in ("<", "<="):
                parts = [(True,) + low, (False,) + high]
            elif op in (">", ">="):
                parts = [(False,) + low, (True,) + high]
            elif op == "==":
                parts = [(False,) + low, (False,) + high]
            else:
                parts = [(True,) + low, (True,) + high]
            out = []
            for truth, repl, pr in parts:
                if pr.is_zero():
                    continue
                self.transitions += 1
                st2 = {v: (p.subs({a: repl}) if a in p.variables() else p) for v, p in state.items()}
                out.append((truth, pr, st2))
            return out
        if isinstance(c, L.Not):
            return [(not tr, pr, st) for tr, pr, st in self.cond_split(c.a, state)]
        if isinstance(c, (L.And, L.Or)):
            out = []
            for tr1, p1, st1 in self.cond_split(c.a, state):
                for tr2, p2, st2 in self.cond_split(c.b, st1):
                    out.append(((tr1 and tr2) if isinstance(c, L.And) else (tr1 or tr2), p1 * p2, st2))
            return out
        raise NotApplicable("condition %r" % c)

    def _cond_atom(self, a, side, t):
        name = "%s~%s%s" % (a, side, hashlib.md5(str(t).encode()).hexdigest()[:6])
        if name not in self.atoms:
            o = self.atoms[a].order
            self.atoms[name] = AtomInfo(o, "U", ())
        return name

    def new_atom(self, n, sid, idx, kind, params):
        key = hashlib.md5(repr([p.key() for p in params]).encode()).hexdigest()[:8]
        name = "@%d_%d_%d_%s%s" % (n + 1, sid, idx, kind, key)
        if name not in self.atoms:
            self.atoms[name] = AtomInfo((n, sid, idx), kind, tuple(params))
        return Poly.var(name)

    def rhs_outcomes(self, rhs, state, n, sid, idx):
        """-> list of (value Poly, prob Poly, label)"""
        if isinstance(rhs, L.RPoly):
            return [(self.ev(rhs.poly, state), ONE, None)]
        if isinstance(rhs, L.RFunc):
            # Sin/Cos/Exp: only the rational case is modelled (argument 0, as a number or as the current value of a variable)
            a = self.ev(rhs.arg, state)
            if a.is_const() and a.const_value() == 0:
                return [(ZERO if rhs.func == "Sin" else ONE, ONE, None)]
            raise NotApplicable("functional assignment with a non-zero argument")
        if isinstance(rhs, L.RChoice):
            out = []
            for i, (e, p) in enumerate(zip(rhs.polys, rhs.probs)):
                pr = self.ev(p, state)
                if pr.is_zero():
                    continue
                out.append((self.ev(e, state), pr, i))
            return out
        if isinstance(rhs, L.RDraw):
            ps = [self.ev(p, state) for p in rhs.params]
            d = rhs.dist
            if d == "Bernoulli":
                out = []
                if not ps[0].is_zero():
                    out.append((ONE, ps[0], 1))
                if not (ONE - ps[0]).is_zero():
                    out.append((ZERO, ONE - ps[0], 0))
                return out
            if d == "DiscreteUniform":
                a, b = ps[0].const_value(), ps[1].const_value()
                if a.denominator != 1 or b.denominator != 1 or b < a:
                    raise NotApplicable("DiscreteUniform parameters")
                k = int(b - a) + 1
                return [(Poly.const(a + i), Poly.const(Fraction(1, k)), i) for i in range(k)]
            if d == "Categorical":
                return [(Poly.const(i), p, i) for i, p in enumerate(ps) if not p.is_zero()]
            if d == "Normal":
                return [(ps[0] + self.new_atom(n, sid, idx, "Z", [ps[1]]), ONE, None)]
            if d == "Uniform":
                return [(ps[0] + (ps[1] - ps[0]) * self.new_atom(n, sid, idx, "U", []), ONE, None)]
            if d == "Laplace":
                return [(ps[0] + ps[1] * self.new_atom(n, sid, idx, "L", []), ONE, None)]
            if d == "DistExp":
                if not ps[0].is_const():
                    raise NotApplicable("DistExp with non-constant rate")
                return [(self.new_atom(n, sid, idx, "X", []) / ps[0], ONE, None)]
            if d == "Gamma":
                if not ps[0].is_const():
                    raise NotApplicable("Gamma with non-constant shape")
                return [(ps[1] * self.new_atom(n, sid, idx, "G", [ps[0]]), ONE, None)]
            if d == "Beta":
                if not (ps[0].is_const() and ps[1].is_const()):
                    raise NotApplicable("Beta with non-constant shape")
                sc = ps[2] if len(ps) > 2 else ONE
                return [(sc * self.new_atom(n, sid, idx, "B", [ps[0], ps[1]]), ONE, None)]
            raise NotApplicable("distribution " + d)
        raise NotApplicable("rhs %r" % rhs)

    def observe(self, var, val):
        self.reach.setdefault(var, set()).add(val)

    # -- executing statements -----------------------------------------------------------------------
    def exec_stmts(self, stmts, state, prob, n, path):
        """-> list of (state, prob, path).  `state` is not mutated."""
        cur = [(state, prob, path)]
        for s in stmts:
            nxt = []
            for st, pr, pa in cur:
                nxt.extend(self.exec_stmt(s, st, pr, n, pa))
            cur = nxt
        return cur

    def exec_stmt(self, s, state, prob, n, path):
        if isinstance(s, L.If):
            pending = [(state, prob)]
            results = []
            for c, b in zip(s.conds, s.branches):
                nxt = []
                for st, pr in pending:
                    for truth, p, st2 in self.cond_split(c, st):
                        if truth:
                            results.extend(self.exec_stmts(b, st2, pr * p, n, path))
                        else:
                            nxt.append((st2, pr * p))
                pending = nxt
            for st, pr in pending:
                if s.else_branch is not None:
                    results.extend(self.exec_stmts(s.else_branch, st, pr, n, path))
                else:
                    results.append((st, pr, path))
            return results
        # assignment (possibly simultaneous): all right-hand sides read the old state
        combos = [((), prob, path)]
        for idx, rhs in enumerate(s.rhss):
            outs = self.rhs_outcomes(rhs, state, n, s.sid, idx)
            new = []
            for vals, pr, pa in combos:
                for v, p, lab in outs:
                    if len(outs) > 1:
                        self.transitions += 1
                        npa = pa + ((s.sid, idx, lab, p),) if self.track_paths else pa
                    else:
                        npa = pa
                    new.append((vals + (v,), pr * p, npa))
            combos = new
        res = []
        for vals, pr, pa in combos:
            st = dict(state)
            for t, v in zip(s.targets, vals):
                st[t] = v
                self.observe(t, v)
            res.append((st, pr, pa))
        return res

    @staticmethod
    def skey(state):
        return tuple(sorted((v, p.key()) for v, p in state.items()))

    # -- exploration ----------------------------------------------------------------------------------
    def initial(self):
        # values a variable holds only transiently inside the initial block (overwritten before the loop starts) are not
        # "reached": the observation set starts from the states at the end of the block
        saved, self.reach = self.reach, {}
        try:
            outs = self.exec_stmts(self.prog.init, {}, ONE, -1, ())
        finally:
            self.reach = saved
        d = self._merge(outs)
        for st, pr in d.values():
            for var, val in st.items():
                self.observe(var, val)
        return d

    def _merge(self, outs):
        d = {}
        for st, pr, _ in outs:
            if pr.is_zero():
                continue
            k = self.skey(st)
            if k in d:
                d[k] = (d[k][0], d[k][1] + pr)
            else:
                d[k] = (st, pr)
        return d

    def step(self, dist, n):
        outs = []
        for st, pr in dist.values():
            self.transitions += 1
            for truth, p, st2 in self.cond_split(self.prog.guard, st):
                if truth:
                    outs.extend(self.exec_stmts(self.prog.body, st2, pr * p, n, ()))
                else:
                    self.guard_false_seen = True
                    outs.append((st2, pr * p, ()))
        d = self._merge(outs)
        if len(d) > self.max_states:
            raise CapHit("more than %d states at depth %d" % (self.max_states, n + 1))
        return d

    def run(self, N):
        """Explore boundaries 0..N; returns list of dists."""
        if self.dists is None:
            self.dists = [self.initial()]
            self.states_seen = len(self.dists[0])
        while len(self.dists) <= N:
            d = self.step(self.dists[-1], len(self.dists) - 1)
            self.dists.append(d)
            self.states_seen += len(d)
        return self.dists[: N + 1]

    def stopped_mass(self, n):
        """P(guard false at boundary n)."""
        d = self.run(n)[n]
        tot = ZERO
        for st, pr in d.values():
            if not self.cond(self.prog.guard, st):
                tot = tot + pr
        return tot

    # -- expectations -------------------------------------------------------------------------------------
    def expect_atoms(self, poly, only_iter=None):
        """Integrate out all atoms (latest created first); with only_iter=n only those drawn in
        loop iteration n (0-based), leaving earlier atoms as symbols."""
        while True:
            present = [v for v in poly.variables() if v in self.atoms
                       and (only_iter is None or self.atoms[v].order[0] == only_iter)]
            if not present:
                return poly
            a = max(present, key=lambda v: self.atoms[v].order)
            info = self.atoms[a]
            res = ZERO
            for m, c in poly.t.items():
                md = dict(m)
                e = md.pop(a, 0)
                rest = Poly({tuple(sorted(md.items())): c})
                res = res + (rest * atom_moment(info, e) if e else rest)
            poly = res

    def moment(self, mono, n, weight=None):
        """E_n(mono) where mono is a Poly in program variables.  weight(state)->bool restricts."""
        d = self.run(n)[n]
        tot = ZERO
        for st, pr in d.values():
            if weight is not None and not weight(st):
                continue
            tot = tot + self.expect_atoms(pr * self.ev(mono, st))
        return tot

    def law(self, mono, n):
        """Exact law of a monomial at boundary n (only for atom-free numeric values):
        dict Fraction value -> probability Poly."""
        d = self.run(n)[n]
        out = {}
        for st, pr in d.values():
            v = self.ev(mono, st)
            if not v.is_const():
                raise NotApplicable("law of non-numeric value")
            v = v.const_value()
            out[v] = out.get(v, ZERO) + pr
        return out

    # -- fixed-point reachability (supports only) -----------------------------------------------------------
    def reach_fixpoint(self, cap=50000):
        """Explore the support graph until no new state appears.  Returns (n_states, closed)."""
        seen = {}
        init = self.initial()
        frontier = []
        for k, (st, _) in init.items():
            seen[k] = st
            frontier.append(st)
        depth = 0
        while frontier:
            nxt = []
            for st in frontier:
                if self.cond(self.prog.guard, st):
                    outs = self.exec_stmts(self.prog.body, st, ONE, depth, ())
                else:
                    outs = [(st, ONE, ())]
                for s2, pr, _ in outs:
                    if pr.is_zero():
                        continue
                    k = self.skey(s2)
                    if k not in seen:
                        if any(v in self.atoms for p in s2.values() for v in p.variables()):
                            return len(seen), False
                        seen[k] = s2
                        nxt.append(s2)
                        if len(seen) > cap:
                            return len(seen), False
            frontier = nxt
            depth += 1
            if depth > 200:
                return len(seen), False
        return len(seen), True

    # -- all paths (no merging) for the simulator conformance ------------------------------------------------
    def paths(self, N):
        """-> list of (choices, prob, states) ; choices: tuple of (sid, idx, label, prob) for every
        probabilistic statement with >1 outcome, in execution order; states: list of valuations at
        boundaries 0..N."""
        self.track_paths = True
        try:
            cur = [(st, pr, pa, [st]) for st, pr, pa in self.exec_stmts(self.prog.init, {}, ONE, -1, ())]
            for n in range(N):
                nxt = []
                for st, pr, pa, hist in cur:
                    if self.cond(self.prog.guard, st):
                        for s2, p2, pa2 in self.exec_stmts(self.prog.body, st, pr, n, pa):
                            nxt.append((s2, p2, pa2, hist + [s2]))
                    else:
                        nxt.append((st, pr, pa, hist + [st]))
                cur = nxt
                if len(cur) > self.max_states:
                    raise CapHit("paths")
            return [(pa, pr, hist) for st, pr, pa, hist in cur]
        finally:
            self.track_paths = False
