"""Shared pieces of the program-level checks: corpora and the moment comparison."""
import itertools
import traceback

from . import gen
from fractions import Fraction

from .poly import Poly, parse_poly, ZERO
from .model import Model, NotApplicable, CapHit
from .refparser import parse_program, RefParseError, NotPolynomial
from .pool import cpu_limit, CpuTimeout

import os

THOROUGH = os.environ.get("VERIF_TIER", "quick") == "thorough"
GOAL_CPU = 40 if THOROUGH else 10   # CPU seconds per goal
CASE_CPU = 150 if THOROUGH else 30  # CPU seconds per program (all goals)
NORM_CPU = 30


def exc_name(e):
    tb = traceback.extract_tb(e.__traceback__)
    where = ""
    for fr in reversed(tb):
        if "/mc/" not in fr.filename:
            where = "%s:%s" % (fr.filename.split("/")[-1], fr.name)
            break
    return "%s@%s" % (type(e).__name__, where)


# ---------------------------------------------------------------------------------------------
# corpora


def _uniq(progs):
    seen = set()
    out = []
    for t in progs:
        if t not in seen:
            seen.add(t)
            out.append(t)
    return out


def base_programs(tier, with_cont=True, extended=False):
    """Program texts: seeds + statement sequences x guards x init modes, simplest first."""
    progs = list(gen.SEEDS)
    if tier == "quick":
        menu = gen.S_CTRL + gen.S_DATA + gen.S_IF + (gen.S_CONT if with_cont else [])
        guards = gen.GUARDS
        seqs = list(gen.sequences(menu, 2))
    else:
        menu = (gen.S_CTRL + gen.S_CTRL_MORE + gen.S_DATA + gen.S_DATA_MORE + gen.S_IF + gen.S_IF_MORE
                + ((gen.S_CONT + gen.S_CONT_MORE) if with_cont else []))
        guards = gen.GUARDS + gen.GUARDS_MORE[:2]
        seqs = list(gen.sequences(menu, 2))
        core = ["c = Bernoulli(1/2)", "c = 1 - c", "x = x + c", "x = 1", "y = x", "x, y = y, x + y", "x, y = 0, x + y",
                "if c == 1:\n x = x + 1\nend", "if c == 1:\n c = Bernoulli(1/2)\n x = x + 1\nend"]
        seqs += [s for s in gen.sequences(core, 3) if len(s) == 3]
    if tier == "quick" and extended:
        # (cheap checks only: C02, C03, C05, C12)  every statement of the extended menus at least alone and paired (both orders) with a few partner statements
        partners = ["c = Bernoulli(1/2)", "x = x + c", "y = x", "if c == 1:\n x = x + 1\nend"]
        more = gen.S_CTRL_MORE + gen.S_DATA_MORE + gen.S_IF_MORE + (gen.S_CONT_MORE if with_cont else [])
        for a in more:
            seqs.append([a])
            for b in partners:
                seqs.append([a, b])
                seqs.append([b, a])
    for seq in seqs:
        for g in guards:
            if not gen.guard_ok(seq, g):
                continue
            progs.append(gen.render(seq, g, "const"))
    # symbolic initial values / random initial values for the single-statement and a slice of pairs
    for seq in seqs:
        if len(seq) == 1 or (tier != "quick" and len(seq) == 2):
            progs.append(gen.render(seq, "true", "sym"))
            if tier != "quick" and len(seq) == 1:
                progs.append(gen.render(seq, "true", "rand"))
    return _uniq(progs)


def alias_programs(tier):
    """All sequences of length <= 3 over the S_ALIAS menu that contain a condition atom twice with an assignment
    in between (non-reduced atoms share aliases `_r` that must be invalidated on reassignment)."""
    out = []
    for seq in gen.sequences(gen.S_ALIAS, 3):
        nifs = sum(1 for s in seq if s.startswith("if"))
        if len(seq) < 2 or nifs < 2:
            continue
        if tier == "quick" and len(seq) == 3 and not (seq[0].startswith("if") and seq[2].startswith("if") and not seq[1].startswith("if")):
            continue
        out.append(gen.render(seq, "true", "const"))
    return _uniq(out)


def abstraction_programs(tier):
    """Conditions over continuous (uniform) draws: Polar abstracts them as coins when they are iteration independent."""
    out = []
    others = ["c = Bernoulli(1/2)", "x = x + c", "y = y + x", "x = 2*x", "if c == 1:\n x = x + 1\nend"]
    for a in gen.S_ABSTR:
        out.append(gen.render([a], "true", "const"))
        for b in (others if tier == "quick" else others + gen.S_ABSTR):
            out.append(gen.render([a, b], "true", "const"))
            out.append(gen.render([b, a], "true", "const"))
        out.append(gen.render(["c = Bernoulli(1/2)", a], "c == 1", "const"))
    return _uniq(out)


def program_corpus(kind, tier):
    """-> list of (text, goals)"""
    out = []
    deg = 2 if tier == "quick" else 3
    lim = 6 if tier == "quick" else 10
    for text in base_programs(tier) + abstraction_programs(tier):
        out.append((text, gen.goals_for(text, deg, lim)))
    return out


# ---------------------------------------------------------------------------------------------
# the comparison used by C01 (and re-used by C17, C18, C19)


def build_model(text, max_states=20000):
    prog = parse_program(text)
    return Model(prog, max_states=max_states)


def compare_closed_form(model, goal, sol, N, seed=0, stats=None, exact=True, tol=1e-5):
    """Compare Polar's closed form `sol` for monomial `goal` with the model for n = 0..N'.
    -> (list of mismatches, info dict)"""
    from . import polar

    gp = parse_poly(goal)
    k = polar.own_max_case(sol)
    Nn = max(N, k + 3)
    mism = []
    exp_seq = []
    how_all = set()
    for n in range(Nn + 1):
        expected = model.moment(gp, n)
        exp_seq.append(expected)
        obs = polar.at_n(sol, n)
        if exact:
            verdict, how, obs_text = polar.compare_value(obs, expected, seed)
        else:
            verdict, how, obs_text = polar.compare_value_rounded(obs, expected, seed, tol)
            if verdict == "neq" and tol >= 1e-3:
                # coarse root precision (numeric_eps 1e-3): the deviation is proportional to the size of the TERMS of the closed
                # form, which cancel in small values; it is judged against the largest magnitude of the sequence up to n
                try:
                    env = {v: Fraction(3, 7) for e_ in exp_seq for v in e_.variables()}
                    scale = max([abs(float(e_.eval(env))) for e_ in exp_seq] + [1.0])
                    if abs(complex(obs_text) - float(expected.eval(env))) <= tol * scale and not expected.variables():
                        verdict = "eq"
                except Exception:
                    pass
        how_all.add(how)
        if stats is not None:
            stats["evaluations"] = stats.get("evaluations", 0) + 1
            if how == "numeric":
                stats["numeric_comparisons"] = stats.get("numeric_comparisons", 0) + 1
            if verdict == "unknown":
                stats["uninterpretable_values"] = stats.get("uninterpretable_values", 0) + 1
        if verdict == "neq":
            mism.append({"n": n, "expected": expected.to_text(), "observed": obs_text, "how": how})
    nontrivial = any(e != exp_seq[0] for e in exp_seq)
    return mism, {"N": Nn, "special_cases": k, "nontrivial": nontrivial,
                  "expected": [e.to_text() for e in exp_seq[:6]]}


def analyse_program_goals(text, goals, N, seed=0, settings=None, force_cyclic=False, rounded_tol=1e-5,
                          refusal_is_violation=False, model_text=None):
    """One C01 case: a program and its goals.  Returns the pool result dict."""
    from . import polar

    import time as _time

    _t0 = _time.process_time()
    stats = {"programs": 1, "evaluations": 0, "refusals": {}}
    res = {"status": "ok", "stats": stats, "violations": []}
    try:
        with cpu_limit(20):
            model = build_model(model_text or text)
            model.run(N)
    except CpuTimeout:
        res["status"] = "na"
        stats["caps_hit"] = 1
        return res
    except (NotApplicable, NotPolynomial, RefParseError) as e:
        res["status"] = "na"
        stats["model_not_applicable"] = 1
        return res
    except CapHit:
        res["status"] = "na"
        stats["caps_hit"] = 1
        return res
    polar.reset_settings(**(settings or {}))
    try:
        try:
            with cpu_limit(NORM_CPU):
                program = polar.parse(text)
                program = polar.normalize(program)
        except CpuTimeout:
            stats["refusals"]["timeout@normalize"] = 1
            res["status"] = "refusal"
            if refusal_is_violation:
                # normalisation of the programs of these corpora takes < 0.5 CPU seconds (measured maximum over the thorough
                # corpus 0.3 s); no result after NORM_CPU (100 x that) is non-termination of a pass, i.e. the program is not accepted
                res["status"] = "violation"
                res["violations"].append({"sub": "normalize", "detail": {"refused_with": "no result after %d CPU seconds" % NORM_CPU,
                                                                         "program": text}})
            return res
        except Exception as e:
            stats["refusals"][exc_name(e)] = 1
            res["status"] = "refusal"
            if refusal_is_violation:
                res["status"] = "violation"
                res["violations"].append({"sub": "normalize", "detail": {"refused_with": exc_name(e), "message": str(e)[:300],
                                                                         "program": text}})
            return res
        from recurrences import RecBuilder

        rb = RecBuilder(program)
        solvers = {}
        sample_vals = None
        abstr_vals = None
        from .pool import tainted

        for goal in goals:
            if tainted():
                # a CPU-limit exception was injected into Polar/sympy: process-global caches may be
                # half-updated, nothing computed afterwards in this process is trusted
                stats["refusals"]["skipped_after_timeout"] = stats["refusals"].get("skipped_after_timeout", 0) + 1
                continue
            left = CASE_CPU - (_time.process_time() - _t0)
            if left < 1:
                stats["refusals"]["timeout@case"] = stats["refusals"].get("timeout@case", 0) + 1
                continue
            try:
                with cpu_limit(min(GOAL_CPU, left)):
                    sol, exact = polar.solve_cli(program, goal, rb, solvers, force_cyclic=force_cyclic)
            except CpuTimeout:
                stats["refusals"]["timeout@solve"] = stats["refusals"].get("timeout@solve", 0) + 1
                continue
            except Exception as e:
                k = exc_name(e)
                stats["refusals"][k] = stats["refusals"].get(k, 0) + 1
                if refusal_is_violation:
                    res["violations"].append({"sub": "E(%s)" % goal, "detail": {"refused_with": k, "message": str(e)[:300],
                                                                                "program": text}})
                continue
            if any(str(sy).startswith("_prob") for sy in sol.free_symbols):
                # result expressed through abstracted probabilities `_probK = P(cond)` (printed by Polar as a `where`
                # clause): the probabilities are computed by the model at the program point of the coin and substituted
                if abstr_vals is None:
                    try:
                        with cpu_limit(20):
                            from . import irmodel

                            abstr_vals = irmodel.abstraction_values(irmodel.conv_program(program))
                    except (NotApplicable, CapHit, CpuTimeout, Exception):
                        abstr_vals = False
                if not abstr_vals:
                    stats["abstraction_results_not_judged"] = stats.get("abstraction_results_not_judged", 0) + 1
                    continue
                import sympy as _sp

                sol = sol.xreplace({sy: _sp.Rational(abstr_vals[str(sy)].const_value().numerator,
                                                     abstr_vals[str(sy)].const_value().denominator)
                                    for sy in sol.free_symbols if str(sy) in abstr_vals})
                if any(isinstance(a, _sp.Pow) and a.base == 0 for a in _sp.preorder_traversal(sol)):
                    # the generic formula in _probK is singular at the actual probability (removable 0/0): not judged
                    stats["abstraction_results_not_judged"] = stats.get("abstraction_results_not_judged", 0) + 1
                    continue
                stats["abstraction_results_judged"] = stats.get("abstraction_results_judged", 0) + 1
            try:
                with cpu_limit(GOAL_CPU):
                    mism, info = compare_closed_form(model, goal, sol, N, seed, stats, exact=bool(exact),
                                                     tol=rounded_tol)
            except CpuTimeout:
                stats["refusals"]["timeout@compare"] = stats["refusals"].get("timeout@compare", 0) + 1
                continue
            except (NotApplicable, CapHit):
                stats["model_not_applicable"] = stats.get("model_not_applicable", 0) + 1
                continue
            stats["goals_compared"] = stats.get("goals_compared", 0) + 1
            if info["nontrivial"] and len(model.dists[min(N, len(model.dists) - 1)]) >= 2:
                stats["distinct_nontrivial"] = stats.get("distinct_nontrivial", 0) + 1
            if not exact:
                stats["flagged_rounded"] = stats.get("flagged_rounded", 0) + 1
            if sample_vals is None and info["nontrivial"]:
                sample_vals = {"program": text, "goal": goal, "model_E_n": info["expected"],
                               "polar": str(sol)[:300], "N": info["N"]}
            if mism:
                sub = "E(%s)" % goal
                # recorded call-site finding: a condition replaced by an independent coin while its variables stay program
                # variables - only goals that mention a variable of such a condition are attributed to it
                try:
                    store = getattr(program, "abstracted_const_store", {}) or {}
                    abs_vars = set()
                    for cond in store.values():
                        abs_vars |= {str(sy) for sy in cond.get_free_symbols()}
                    # ... including variables that feed an alias the condition was reduced to (`_r0 = c + d - 1`)
                    changed = True
                    while changed:
                        changed = False
                        for a in list(program.loop_body) + list(program.initial):
                            if str(a.variable) in abs_vars and str(a.variable).startswith("_"):
                                new = {str(sy) for sy in a.get_free_symbols(with_condition=False, with_default=False)} - abs_vars
                                if new:
                                    abs_vars |= new
                                    changed = True
                    if abs_vars & set(parse_poly(goal).variables()):
                        sub = "abstraction-joint-law"
                except Exception:
                    pass
                # recorded call-site finding: --numeric_croots replaces CRootOf roots by 15-digit floats while other irrational
                # roots stay exact radicals; the linear system for the constants is then solved over mixed floats / radicals
                try:
                    import sympy as _sp2

                    if sub.startswith("E(") and (settings or {}).get("numeric_croots") and not (settings or {}).get("numeric_roots") \
                            and not exact and sol.has(_sp2.Float) \
                            and any(isinstance(a, _sp2.Pow) and a.exp.is_Rational and not a.exp.is_Integer and a.base.is_Rational
                                    for a in _sp2.preorder_traversal(sol)):
                        sub = "numeric-croots-mixed-roots"
                except Exception:
                    pass
                res["violations"].append({"sub": sub,
                                          "detail": {"mismatches": mism[:6], "polar": str(sol)[:500], "goal": goal,
                                                     "is_exact": bool(exact), "program": text}})
        stats["states"] = model.states_seen
        stats["transitions"] = model.transitions
        if sample_vals:
            res["sample"] = sample_vals
        if res["violations"]:
            res["status"] = "violation"
        return res
    finally:
        polar.reset_settings()
        res["cpu_s"] = round(_time.process_time() - _t0, 2)


def cli_text_check(text, goals, N, stats, at_n=3):
    """The printed route: GoalsAction.handle_all_goals with --at_n, parsing the lines
        E(M) = v0; v1; ...; formula         and        E(M | n=k) = value
    (covers prettify_piecewise, unpack_piecewise, eval_re).  -> list of violation dicts"""
    import contextlib
    import io
    import re
    import sympy
    from . import polar

    out = []
    try:
        with cpu_limit(20):
            model = build_model(text)
            model.run(N)
    except (NotApplicable, NotPolynomial, RefParseError, CapHit, CpuTimeout):
        return out
    from cli.actions.goals_action import GoalsAction
    from recurrences import RecBuilder

    polar.reset_settings()
    args = polar.cli_defaults()
    args.goals = ["E(%s)" % g for g in goals]
    args.at_n = at_n
    try:
        with cpu_limit(CASE_CPU):
            program = polar.normalize(polar.parse(text))
            ga = GoalsAction(args)
            ga.initialize_program(program, RecBuilder(program))
            buf = io.StringIO()
            with contextlib.redirect_stdout(buf):
                ga.handle_all_goals()
    except CpuTimeout:
        stats["refusals"]["timeout@cli"] = stats["refusals"].get("timeout@cli", 0) + 1
        return out
    except Exception as e:
        k = "cli:" + exc_name(e)
        stats["refusals"][k] = stats["refusals"].get(k, 0) + 1
        return out
    printed = buf.getvalue()
    nsym = sympy.Symbol("n", integer=True)
    for g in goals:
        gp = parse_poly(g)
        gs = str(sympy.sympify(g)) if program.is_probabilistic else str(sympy.sympify(g))
        ident = "E(%s)" % sympy.sympify(g) if program.is_probabilistic else str(sympy.sympify(g))
        m1 = re.search(r"^%s = (.*)$" % re.escape(ident), printed, re.M)
        m2 = re.search(r"^%s = (.*) ≅" % re.escape(("E(%s | n=%d)" % (sympy.sympify(g), at_n)) if program.is_probabilistic
                                                     else ("%s | n=%d" % (sympy.sympify(g), at_n))), printed, re.M)
        if not m1:
            stats["cli_lines_missing"] = stats.get("cli_lines_missing", 0) + 1
            continue
        if "_prob" in m1.group(1):
            # printed through an abstracted probability (`where _probK = P(cond)`): judged on the API route only
            stats["cli_abstraction_lines_not_judged"] = stats.get("cli_abstraction_lines_not_judged", 0) + 1
            continue
        parts = [p.strip() for p in m1.group(1).split(";")]
        try:
            with cpu_limit(GOAL_CPU):
                specials, formula = parts[:-1], sympy.sympify(parts[-1], locals={"n": nsym})
                for i, sv in enumerate(specials):
                    want = model.moment(gp, i)
                    verdict, how, txt = polar.compare_value(sympy.sympify(sv), want)
                    stats["evaluations"] += 1
                    if verdict == "neq":
                        out.append({"sub": "cli E(%s)" % g, "detail": {"program": text, "printed": m1.group(0)[:300], "n": i,
                                                                       "printed_value": sv, "expected": want.to_text()}})
                        break
                else:
                    for n in range(len(specials), max(N, len(specials) + 2) + 1):
                        want = model.moment(gp, n)
                        verdict, how, txt = polar.compare_value(polar.at_n(formula, n), want)
                        stats["evaluations"] += 1
                        if verdict == "neq":
                            out.append({"sub": "cli E(%s)" % g, "detail": {"program": text, "printed": m1.group(0)[:300], "n": n,
                                                                           "formula_value": txt, "expected": want.to_text()}})
                            break
                if m2:
                    want = model.moment(gp, at_n)
                    verdict, how, txt = polar.compare_value(sympy.sympify(m2.group(1)), want)
                    stats["evaluations"] += 1
                    if verdict == "neq":
                        out.append({"sub": "cli E(%s | n=%d)" % (g, at_n), "detail": {"program": text, "printed": m2.group(0)[:200],
                                                                                    "expected": want.to_text()}})
                stats["cli_goals_compared"] = stats.get("cli_goals_compared", 0) + 1
        except CpuTimeout:
            stats["refusals"]["timeout@cli-compare"] = stats["refusals"].get("timeout@cli-compare", 0) + 1
            break
        except (sympy.SympifyError, SyntaxError, TypeError):
            stats["cli_unparsable"] = stats.get("cli_unparsable", 0) + 1
    return out
