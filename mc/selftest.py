"""Self-test of the reference model against hand-computed distributions (run by MANIFEST.setup_cmd).

A regression in mc.model / mc.poly / mc.refparser fails loudly here, before any check is trusted.
"""
import sys
from fractions import Fraction as F

from .refparser import parse_program
from .model import Model
from .poly import parse_poly, Poly

CASES = [
    # (program, goal, [E_0, E_1, ...])  -- all expectations computed by hand
    ("x = 0\nwhile true:\n x = x + 1\nend\n", "x", [0, 1, 2, 3]),
    # geometric stop: P(still running after n) = 1/2^n ; x counts executed iterations
    ("c = 1\nx = 0\nwhile c == 1:\n c = Bernoulli(1/2)\n x = x + 1\nend\n", "x", [0, 1, F(3, 2), F(7, 4)]),
    ("c = 1\nx = 0\nwhile c == 1:\n c = Bernoulli(1/2)\n x = x + 1\nend\n", "c", [1, F(1, 2), F(1, 4), F(1, 8)]),
    # symmetric random walk: E x = 0, E x^2 = n
    ("x = 0\nwhile true:\n x = x + 1 {1/2} x - 1\nend\n", "x**2", [0, 1, 2, 3]),
    # fibonacci
    ("x = 1\ny = 1\nwhile true:\n x, y = y, x + y\nend\n", "y", [1, 2, 3, 5, 8]),
    # simultaneous swap reads old values
    ("x = 1\ny = 2\nwhile true:\n x, y = y, x\nend\n", "x", [1, 2, 1, 2]),
    # sequential (non-simultaneous) is different
    ("x = 1\ny = 2\nwhile true:\n x = y\n y = x\nend\n", "y", [2, 2, 2]),
    # first matching branch only
    ("c = 0\nx = 0\nwhile true:\n if c == 0:\n  c = 1\n  x = x + 1\n elif c == 1:\n  c = 2\n  x = x + 10\n else:\n  c = 0\n end\nend\n",
     "x", [0, 1, 11, 11, 12]),
    # condition on the value at the time of the test (c reassigned before the if)
    ("c = 0\nx = 0\nwhile true:\n c = 1 - c\n if c == 1:\n  x = x + 1\n end\nend\n", "x", [0, 1, 1, 2, 2]),
    # symbolic initial value and parameter
    ("while true:\n x = x + p\nend\n", "x", ["x0", "x0 + p", "x0 + 2*p"]),
    ("x = 0\nwhile true:\n x = x + 1 {p} x\nend\n", "x**2", ["0", "p", "2*p + 2*p**2"]),
    # Normal(mu, variance): E g^2 = mu^2 + var
    ("x = 2\ny = 0\nwhile true:\n g = Normal(x, 3)\n y = y + g**2\nend\n", "y", [0, 7, 14]),
    # Uniform(0,2): mean 1, second moment 4/3 ; independent draws each iteration
    ("x = 0\nwhile true:\n g = Uniform(0, 2)\n x = x + g\nend\n", "x**2", [0, F(4, 3), F(4, 3) * 2 + 2]),
    # DistExp(2): E = 1/2, E g^2 = 1/2 ; Laplace(1,2): E = 1, E^2 = 1 + 8 ; Gamma(2,1/2): E = 1 ; Beta(2,3): 2/5
    ("x = 0\nwhile true:\n g = DistExp(2)\n x = x + g**2\nend\n", "x", [0, F(1, 2), 1]),
    ("x = 0\nwhile true:\n g = Laplace(1, 2)\n x = x + g**2\nend\n", "x", [0, 9, 18]),
    ("x = 0\nwhile true:\n g = Gamma(2, 1/2)\n x = x + g\nend\n", "x", [0, 1, 2]),
    ("x = 0\nwhile true:\n g = Beta(2, 3)\n x = x + g\nend\n", "x", [0, F(2, 5), F(4, 5)]),
    # Categorical numbering from 0, DiscreteUniform inclusive bounds
    ("x = 0\nwhile true:\n x = Categorical(1/4, 1/4, 1/2)\nend\n", "x", [0, F(5, 4)]),
    ("x = 0\nwhile true:\n x = DiscreteUniform(1, 3)\nend\n", "x**2", [0, F(14, 3)]),
    # stutter freezes everything, including variables assigned before the guard variable
    ("c = 1\nx = 0\nwhile c == 1:\n x = x + 1\n c = 0\nend\n", "x", [0, 1, 1, 1]),
    # && / || / ! and inequalities
    ("c = 0\nd = 1\nx = 0\nwhile true:\n c = 1 - c\n if c == 1 && d == 1 || c == 5:\n  x = x + 1\n end\n if !(c >= 1):\n  x = x + 10\n end\nend\n",
     "x", [0, 1, 11, 12]),
]


def main():
    bad = 0
    for text, goal, seq in CASES:
        m = Model(parse_program(text))
        for n, want in enumerate(seq):
            got = m.moment(parse_poly(goal), n)
            w = parse_poly(want) if isinstance(want, str) else Poly.const(want)
            if got != w:
                bad += 1
                print("SELFTEST FAIL: %r goal %s n=%d: model %s, by hand %s" % (text, goal, n, got, w))
    # printer / parser round trip on the corpus
    from .common import base_programs

    for text in base_programs("quick"):
        p = parse_program(text)
        q = parse_program(p.text())
        if p.text() != q.text():
            bad += 1
            print("SELFTEST FAIL: round trip", repr(text))
    if bad:
        print("selftest: %d failures" % bad)
        return 1
    print("selftest: %d hand-computed sequences ok" % len(CASES))
    return 0


if __name__ == "__main__":
    sys.exit(main())
