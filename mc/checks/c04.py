"""C04 — solved closed forms reproduce A^n v (+ constant inhomogeneous part) for all n.

Exhaustive over matrix alphabets (no program involved: `Recurrences` objects are built directly):
every matrix x initial vector x inhomogeneous part x solver (default dispatch, forced cyclic) and,
on matrices with irrational/complex spectrum, the numeric root options.  Oracle: exact iteration
x(k+1) = A x(k) + c with Fractions for k <= dim + 6, every component.
"""
import itertools
from fractions import Fraction as F

from ..pool import cpu_limit, CpuTimeout, tainted
from ..common import exc_name, THOROUGH
from ..poly import Poly

ID = "C04"
LEVEL = "exploration"
BUDGET = {"quick": 220, "thorough": 6000}
ASSUMPTIONS = [
    "exact iteration with Fractions is the oracle; sympy subs/expand evaluates Polar's closed form at integer n",
    "numeric-root modes: a deviation must come with is_exact == False and stay below 1e-5 relative for n <= dim + 6 "
    "(numeric_eps = 1e-10); an exception or CPU limit is a refusal",
]

NAMES = ["a", "b", "c", "d"]


def rule(tier):
    return ("all 2x2 matrices over {-1,0,1,2}%s, all 3x3 companion matrices with coefficients in {-1,0,1} (thorough: {-1,0,1,2}), all 3x3 and 4x4 "
            "0/1 matrices with at most one 1 per row (every nilpotent-tail + cycle shape), all 3x3 and 4x4 bidiagonal chains with diagonal in {0,1} "
            "(3x3 also -1; thorough {-1,0,1,2}) and superdiagonal in {0,1}%s; x 2 initial vectors x 2 "
            "inhomogeneous parts x {default, forced cyclic} (+ numeric root options where the spectrum is not rational); "
            "non-trivial = matrix whose sequence is not constant") % (
        "" if tier == "quick" else " and {1/2}", "" if tier == "quick" else ", all 3x3 over {-1,0,1} up to simultaneous permutation, one parametric entry p in 2x2")


def bounds(tier):
    return {"n_max": "dim + 6"}


def _mats(tier):
    out = []
    alpha2 = ["-1", "0", "1", "2"] + (["1/2"] if tier != "quick" else [])
    for e in itertools.product(alpha2, repeat=4):
        out.append([[e[0], e[1]], [e[2], e[3]]])
    for co in itertools.product(["-1", "0", "1"] if tier == "quick" else ["-1", "0", "1", "2"], repeat=3):
        out.append([["0", "1", "0"], ["0", "0", "1"], [co[0], co[1], co[2]]])
    for dim in (3, 4):
        for f in itertools.product(range(dim + 1), repeat=dim):
            m = [["0"] * dim for _ in range(dim)]
            for i, j in enumerate(f):
                if j < dim:
                    m[i][j] = "1"
            out.append(m)
    # irreducible cubic blocks (roots stay CRootOf) combined with a rational eigenvalue, in both orders
    for cub in (["-1", "3", "0"], ["-1", "-1", "0"]):
        for r in ("2", "-3", "1/2"):
            out.append([["0", "1", "0", "0"], ["0", "0", "1", "0"], [cub[0], cub[1], cub[2], "0"], ["0", "0", "0", r]])
            out.append([[r, "0", "0", "0"], ["0", "0", "1", "0"], ["0", "0", "0", "1"], ["0", cub[0], cub[1], cub[2]]])
    # bidiagonal chains: every mix of delay lines (diagonal 0) and accumulators (diagonal 1, thorough also 2) feeding one another
    # (x_i' = d_i x_i + s_i x_{i+1}); together with the inhomogeneous last component these are the "summing" shapes of the
    # acyclic solver (start index of an accumulator behind two delays, etc.)
    for dim in (3, 4):
        dalpha = (["-1", "0", "1"] if dim == 3 else ["0", "1"]) if tier == "quick" else ["-1", "0", "1", "2"]
        for diag in itertools.product(dalpha, repeat=dim):
            for sup in itertools.product(["0", "1"], repeat=dim - 1):
                m = [["0"] * dim for _ in range(dim)]
                for i in range(dim):
                    m[i][i] = diag[i]
                    if i + 1 < dim:
                        m[i][i + 1] = sup[i]
                out.append(m)
    if tier != "quick":
        seen = set()
        for e in itertools.product(["-1", "0", "1"], repeat=9):
            m = [list(e[0:3]), list(e[3:6]), list(e[6:9])]
            canon = min(tuple(tuple(m[p[i]][p[j]] for j in range(3)) for i in range(3))
                        for p in itertools.permutations(range(3)))
            if canon in seen:
                continue
            seen.add(canon)
            out.append(("light", m))
        for pos in range(4):
            for e in itertools.product(["-1", "0", "1", "2"], repeat=3):
                ent = list(e)
                ent.insert(pos, "p")
                out.append([[ent[0], ent[1]], [ent[2], ent[3]]])
    # de-duplicate
    uniq, seen = [], set()
    for m in out:
        light = isinstance(m, tuple)
        if light:
            m = m[1]
        k = tuple(tuple(r) for r in m)
        if k not in seen:
            seen.add(k)
            uniq.append((m, light))
    return uniq


def cases(tier, seed):
    # "light": the large 3x3 class is run with one (generic) initial vector only
    return [{"input": dict({"matrix": m}, **({"light": True} if light else {}))} for m, light in _mats(tier)]


def iterate(A, v, c, steps):
    seq = [list(v)]
    for _ in range(steps):
        x = seq[-1]
        seq.append([sum((A[i][j] * x[j] for j in range(len(x))), Poly()) + c[i] for i in range(len(x))])
    return seq


def build_recurrences(Atext, v, c):
    import sympy
    from recurrences import Recurrences

    dim = len(Atext)
    syms = [sympy.Symbol(NAMES[i]) for i in range(dim)]
    rec = {}
    init = {}
    for i in range(dim):
        rhs = sympy.Integer(0)
        for j in range(dim):
            rhs += sympy.sympify(Atext[i][j]) * syms[j]
        rhs += sympy.sympify(c[i])
        rec[syms[i]] = sympy.expand(rhs)
        init[syms[i]] = sympy.sympify(v[i])
    consts = [sympy.Symbol("p")]
    return Recurrences(rec, init, None, const_symbols=consts), syms


def run_case(case):
    import sympy
    from recurrences.solver import RecurrenceSolver
    from .. import polar
    from ..poly import parse_poly

    Atext = case["input"]["matrix"]
    dim = len(Atext)
    A = [[parse_poly(x) for x in row] for row in Atext]
    stats = {"evaluations": 0, "refusals": {}, "variants": 0}
    res = {"status": "ok", "stats": stats, "violations": []}
    steps = dim + 6
    inits = [["1"] + ["0"] * (dim - 1), [str(i + 1) for i in range(dim)]]
    if case["input"].get("light"):
        inits = inits[1:]
    inhoms = [["0"] * dim, ["0"] * (dim - 1) + ["5"]]
    parametric = any("p" in x for row in Atext for x in row)
    nontrivial = False
    # spectrum classification (own computation through sympy's charpoly only to choose variants)
    try:
        M = sympy.Matrix([[sympy.sympify(x) for x in row] for row in Atext])
        cp = M.charpoly()
        rational_spec = all(r.is_Rational for r in sympy.roots(cp.as_expr(), cp.gens[0]).keys()) and \
            sum(sympy.roots(cp.as_expr(), cp.gens[0]).values()) == dim
    except Exception:
        rational_spec = True
    modes = [("default", {}), ("cyclic", {"force_cyclic_solver": True})]
    if not rational_spec and not parametric:
        # numeric modes first: they are cheap, while the exact modes may hit the CPU limit on CRootOf systems
        modes = [("numeric_roots", {"force_cyclic_solver": True, "numeric_roots": True, "numeric_eps": 1e-10}),
                 ("numeric_croots", {"force_cyclic_solver": True, "numeric_croots": True, "numeric_eps": 1e-10})] + modes
    results = {}
    for vi, v in enumerate(inits):
        for ci, c in enumerate(inhoms):
            truth = iterate(A, [parse_poly(x) for x in v], [parse_poly(x) for x in c], steps)
            if any(truth[k] != truth[0] for k in range(1, steps + 1)):
                nontrivial = True
            for mname, kw in modes:
                if tainted():
                    stats["refusals"]["skipped_after_timeout"] = stats["refusals"].get("skipped_after_timeout", 0) + 1
                    continue
                stats["variants"] += 1
                tag = "%s/v%d/c%d" % (mname, vi, ci)
                try:
                    with cpu_limit(8 if not THOROUGH else 60):
                        recs, syms = build_recurrences(Atext, v, c)
                        solver = RecurrenceSolver(recs, kw.get("numeric_roots"), kw.get("numeric_croots"),
                                                  kw.get("numeric_eps"), kw.get("force_cyclic_solver", False))
                        sols = [solver.get(s) for s in syms]
                        exact = solver.is_exact
                        bad = None
                        for i in range(dim):
                            for k in range(steps + 1):
                                stats["evaluations"] += 1
                                obs = polar.at_n(sols[i], k)
                                if exact:
                                    verdict, how, txt = polar.compare_value(obs, truth[k][i])
                                    if verdict == "neq":
                                        bad = {"component": NAMES[i], "n": k, "expected": truth[k][i].to_text(),
                                               "observed": txt, "is_exact": True, "closed_form": str(sols[i])[:300]}
                                        break
                                else:
                                    # rounded: must be close
                                    tv = truth[k][i].const_value()
                                    val = complex(sympy.N(obs, 30))
                                    if abs(val - float(tv)) > 1e-5 * max(1.0, abs(float(tv))):
                                        bad = {"component": NAMES[i], "n": k, "expected": str(tv), "observed": str(val),
                                               "is_exact": False, "closed_form": str(sols[i])[:300]}
                                        break
                            if bad:
                                break
                except CpuTimeout:
                    stats["refusals"]["timeout:" + mname] = stats["refusals"].get("timeout:" + mname, 0) + 1
                    continue
                except Exception as e:
                    k_ = mname + ":" + exc_name(e)
                    stats["refusals"][k_] = stats["refusals"].get(k_, 0) + 1
                    continue
                if bad:
                    res["violations"].append({"sub": tag, "detail": dict(bad, matrix=Atext, init=v, inhom=c, mode=mname)})
    if nontrivial:
        stats["distinct_nontrivial"] = 1
    res["sample"] = {"matrix": Atext, "modes": [m[0] for m in modes]}
    if res["violations"]:
        res["status"] = "violation"
    return res
