"""Independent definitions of the ten distribution families (textbook densities / mass functions,
CDFs and raw moments), written without looking at Polar's formulas.  Oracle for C08, C12(b), C13.

Parameters follow the *documented reading* of Polar's constructors: Normal(mu, variance),
Uniform(a, b), Laplace(mu, b), DistExp(rate), Gamma(shape, scale), Beta(a, b[, scale]),
TruncNormal(mu, variance, lower, upper), Bernoulli(p), DiscreteUniform(a, b) inclusive,
Categorical(p0..pk) on 0..k.
"""
from fractions import Fraction as F
from math import comb, factorial

import mpmath as mp

mp.mp.dps = 50

CONT = ("Normal", "Uniform", "Laplace", "DistExp", "Gamma", "Beta", "TruncNormal")
DISC = ("Bernoulli", "DiscreteUniform", "Categorical")


def fr(x):
    return F(str(x)) if not isinstance(x, F) else x


def _dfact(k):
    r = 1
    while k > 1:
        r *= k
        k -= 2
    return r


def exact_moment(fam, ps, k):
    """Exact k-th raw moment as Fraction, or None when it is not rational (TruncNormal)."""
    ps = [fr(p) for p in ps]
    if fam == "Normal":
        mu, s2 = ps
        tot = F(0)
        for j in range(0, k + 1, 2):
            tot += comb(k, j) * mu ** (k - j) * s2 ** (j // 2) * _dfact(j - 1)
        return tot
    if fam == "Uniform":
        a, b = ps
        return (b ** (k + 1) - a ** (k + 1)) / ((k + 1) * (b - a))
    if fam == "Laplace":
        mu, b = ps
        tot = F(0)
        for j in range(0, k + 1, 2):
            tot += comb(k, j) * mu ** (k - j) * b ** j * factorial(j)
        return tot
    if fam == "DistExp":
        return F(factorial(k)) / ps[0] ** k
    if fam == "Gamma":
        sh, th = ps
        r = F(1)
        for i in range(k):
            r *= sh + i
        return r * th ** k
    if fam == "Beta":
        a, b = ps[0], ps[1]
        sc = ps[2] if len(ps) > 2 else F(1)
        r = F(1)
        for i in range(k):
            r *= (a + i) / (a + b + i)
        return r * sc ** k
    if fam == "Bernoulli":
        return F(1) if k == 0 else ps[0]
    if fam == "DiscreteUniform":
        a, b = int(ps[0]), int(ps[1])
        return sum(F(v) ** k for v in range(a, b + 1)) / (b - a + 1)
    if fam == "Categorical":
        return sum(p * F(i) ** k for i, p in enumerate(ps))
    return None


def support(fam, ps):
    """(lo, hi) as mpf (inf allowed) for continuous; list of values for discrete."""
    ps = [fr(p) for p in ps]
    m = lambda q: mp.mpf(q.numerator) / q.denominator
    if fam in ("Normal", "Laplace"):
        return (-mp.inf, mp.inf)
    if fam == "Uniform":
        return (m(ps[0]), m(ps[1]))
    if fam in ("DistExp", "Gamma"):
        return (mp.mpf(0), mp.inf)
    if fam == "Beta":
        return (mp.mpf(0), m(ps[2]) if len(ps) > 2 else mp.mpf(1))
    if fam == "TruncNormal":
        return (m(ps[2]), m(ps[3]))
    if fam == "Bernoulli":
        return [F(0), F(1)] if 0 < ps[0] < 1 else ([F(1)] if ps[0] == 1 else [F(0)])
    if fam == "DiscreteUniform":
        return [F(v) for v in range(int(ps[0]), int(ps[1]) + 1)]
    if fam == "Categorical":
        return [F(i) for i, p in enumerate(ps) if p != 0]
    raise KeyError(fam)


def pdf(fam, ps):
    ps = [fr(p) for p in ps]
    m = lambda q: mp.mpf(q.numerator) / q.denominator
    if fam == "Normal":
        mu, s2 = m(ps[0]), m(ps[1])
        return lambda x: mp.exp(-(x - mu) ** 2 / (2 * s2)) / mp.sqrt(2 * mp.pi * s2)
    if fam == "Uniform":
        a, b = m(ps[0]), m(ps[1])
        return lambda x: 1 / (b - a) if a <= x <= b else mp.mpf(0)
    if fam == "Laplace":
        mu, b = m(ps[0]), m(ps[1])
        return lambda x: mp.exp(-abs(x - mu) / b) / (2 * b)
    if fam == "DistExp":
        l = m(ps[0])
        return lambda x: l * mp.exp(-l * x) if x >= 0 else mp.mpf(0)
    if fam == "Gamma":
        sh, th = m(ps[0]), m(ps[1])
        return lambda x: x ** (sh - 1) * mp.exp(-x / th) / (mp.gamma(sh) * th ** sh) if x > 0 else mp.mpf(0)
    if fam == "Beta":
        a, b = m(ps[0]), m(ps[1])
        sc = m(ps[2]) if len(ps) > 2 else mp.mpf(1)
        return lambda x: ((x / sc) ** (a - 1) * (1 - x / sc) ** (b - 1) / mp.beta(a, b) / sc) if 0 < x < sc else mp.mpf(0)
    if fam == "TruncNormal":
        mu, s2, lo, hi = m(ps[0]), m(ps[1]), m(ps[2]), m(ps[3])
        s = mp.sqrt(s2)
        z = mp.ncdf((hi - mu) / s) - mp.ncdf((lo - mu) / s)
        return lambda x: (mp.npdf((x - mu) / s) / s / z) if lo <= x <= hi else mp.mpf(0)
    raise KeyError(fam)


def cdf(fam, ps):
    ps = [fr(p) for p in ps]
    m = lambda q: mp.mpf(q.numerator) / q.denominator
    if fam == "Normal":
        mu, s2 = m(ps[0]), m(ps[1])
        return lambda x: mp.ncdf((x - mu) / mp.sqrt(s2))
    if fam == "Uniform":
        a, b = m(ps[0]), m(ps[1])
        return lambda x: min(mp.mpf(1), max(mp.mpf(0), (x - a) / (b - a)))
    if fam == "Laplace":
        mu, b = m(ps[0]), m(ps[1])
        return lambda x: mp.exp((x - mu) / b) / 2 if x < mu else 1 - mp.exp(-(x - mu) / b) / 2
    if fam == "DistExp":
        l = m(ps[0])
        return lambda x: 1 - mp.exp(-l * x) if x > 0 else mp.mpf(0)
    if fam == "Gamma":
        sh, th = m(ps[0]), m(ps[1])
        return lambda x: mp.gammainc(sh, 0, x / th, regularized=True) if x > 0 else mp.mpf(0)
    if fam == "Beta":
        a, b = m(ps[0]), m(ps[1])
        sc = m(ps[2]) if len(ps) > 2 else mp.mpf(1)
        return lambda x: mp.betainc(a, b, 0, min(max(x / sc, 0), 1), regularized=True)
    if fam == "TruncNormal":
        mu, s2, lo, hi = m(ps[0]), m(ps[1]), m(ps[2]), m(ps[3])
        s = mp.sqrt(s2)
        A, B = mp.ncdf((lo - mu) / s), mp.ncdf((hi - mu) / s)
        return lambda x: (mp.ncdf((min(max(x, lo), hi) - mu) / s) - A) / (B - A)
    raise KeyError(fam)


def breakpoints(fam, ps):
    """Integration break points for quadrature (finite, around the mass)."""
    lo, hi = support(fam, ps)
    ps = [fr(p) for p in ps]
    m = lambda q: mp.mpf(q.numerator) / q.denominator
    if fam == "Normal":
        mu, s = m(ps[0]), mp.sqrt(m(ps[1]))
        return [-mp.inf, mu - 6 * s, mu, mu + 6 * s, mp.inf]
    if fam == "Laplace":
        mu, b = m(ps[0]), m(ps[1])
        return [-mp.inf, mu - 10 * b, mu, mu + 10 * b, mp.inf]
    if fam == "DistExp":
        return [0, 5 / m(ps[0]), mp.inf]
    if fam == "Gamma":
        return [0, m(ps[0]) * m(ps[1]), 10 * m(ps[0]) * m(ps[1]) + 10 * m(ps[1]), mp.inf]
    if fam == "TruncNormal":
        mu = m(ps[0])
        pts = [lo, hi]
        if lo < mu < hi:
            pts = [lo, mu, hi]
        return pts
    return [lo, hi]


def numeric_expect(fam, ps, f):
    """E f(X) by quadrature (continuous) or finite sum (discrete); f takes and returns mpf/mpc."""
    if fam in DISC:
        psf = [fr(p) for p in ps]
        tot = mp.mpf(0)
        if fam == "Bernoulli":
            pairs = [(F(1), psf[0]), (F(0), 1 - psf[0])]
        elif fam == "DiscreteUniform":
            vals = support(fam, ps)
            pairs = [(v, F(1, len(vals))) for v in vals]
        else:
            pairs = [(F(i), p) for i, p in enumerate(psf)]
        for v, p in pairs:
            tot += f(mp.mpf(v.numerator) / v.denominator) * (mp.mpf(p.numerator) / p.denominator)
        return tot
    d = pdf(fam, ps)
    return mp.quad(lambda x: f(x) * d(x), breakpoints(fam, ps))


# ---------------------------------------------------------------------------------------------
# grids

GRID_QUICK = {
    "Normal": [["0", "1"], ["1", "4"], ["-1/2", "1/4"]],
    "Uniform": [["0", "1"], ["-1", "2"], ["1/2", "3"]],
    "Laplace": [["0", "1"], ["1", "2"], ["-1", "1/2"]],
    "DistExp": [["1"], ["2"], ["1/3"]],
    "Gamma": [["2", "1/2"], ["1", "1"], ["3", "2"], ["1/2", "1"]],
    "Beta": [["2", "3"], ["1", "1"], ["3", "1"], ["2", "2", "3"]],
    "TruncNormal": [["0", "1", "-1", "1"], ["1", "4", "0", "3"], ["0", "1", "1", "2"], ["2", "1/4", "0", "5"]],
}
GRID_MORE = {
    "Normal": [["3", "1/9"], ["0.5", "2.25"], ["-2", "9"]],
    "Uniform": [["-3", "-1"], ["0.25", "0.75"], ["0", "10"]],
    "Laplace": [["2", "3"], ["0.5", "0.5"], ["-3", "1/4"]],
    "DistExp": [["5"], ["0.5"], ["7/2"]],
    "Gamma": [["5", "1/3"], ["3/2", "2"], ["0.5", "0.5"]],
    "Beta": [["5", "1"], ["3", "3", "2"], ["1/2", "2"], ["2", "5", "1/2"], ["1/2", "1/2"]],
    "TruncNormal": [["-1", "2", "-3", "0"], ["0", "1", "-1/2", "3"], ["5", "1", "0", "4"], ["0", "9", "-1", "1"]],
}


def sampler_grid(tier):
    out = []
    for fam in CONT:
        for ps in GRID_QUICK[fam] + (GRID_MORE[fam] if tier != "quick" else []):
            out.append((fam, ps))
    return out


QUANTILES = ["0.001", "0.01", "0.1", "0.25", "0.5", "0.75", "0.9", "0.99", "0.999"]

_MODS = {
    "Normal": ("program.distribution.normal", "norm"),
    "Uniform": ("program.distribution.uniform", "uniform"),
    "Laplace": ("program.distribution.laplace", "laplace"),
    "DistExp": ("program.distribution.exponential", "expon"),
    "Gamma": ("program.distribution.gamma", "gamma"),
    "Beta": ("program.distribution.beta", "beta"),
    "TruncNormal": ("program.distribution.truncated_normal", "truncnorm"),
}


def check_sampler(fam, params):
    """C12(b): the law of Distribution.sample is the law whose moments the analysis uses."""
    import importlib

    from program.distribution import distribution_factory

    stats = {"evaluations": 0, "refusals": {}}
    res = {"status": "ok", "stats": stats, "violations": []}
    try:
        dist = distribution_factory(fam, list(params))
    except Exception as e:
        stats["refusals"][type(e).__name__] = 1
        res["status"] = "refusal"
        return res
    modname, attr = _MODS[fam]
    mod = importlib.import_module(modname)
    real = getattr(mod, attr)
    F_or = cdf(fam, params)
    lo, hi = support(fam, params)
    bad = []
    captured = []
    for q in QUANTILES:
        u = float(q)

        class Stub:
            @staticmethod
            def rvs(*a, **k):
                captured.append((a, k))
                return float(real(*a, **k).ppf(u))

        setattr(mod, attr, Stub)
        try:
            x = float(dist.sample({}))
        except Exception as e:
            stats["refusals"][type(e).__name__] = stats["refusals"].get(type(e).__name__, 0) + 1
            continue
        finally:
            setattr(mod, attr, real)
        stats["evaluations"] += 1
        got = F_or(mp.mpf(x))
        if abs(got - mp.mpf(q)) > mp.mpf("1e-7"):
            bad.append({"u": q, "sample": x, "oracle_cdf_at_sample": str(mp.nstr(got, 12))})
        if not (lo - mp.mpf("1e-9") <= x <= hi + mp.mpf("1e-9")):
            bad.append({"u": q, "sample": x, "outside_support": [str(lo), str(hi)]})
        # declared support must contain the sample as well
        try:
            sup = dist.get_support()
            inside = False
            for s in sup:
                if isinstance(s, tuple):
                    a, b = (mp.mpf(str(float(s[0]))) if str(s[0]) not in ("-oo", "oo") else (-mp.inf if str(s[0]) == "-oo" else mp.inf)), \
                           (mp.mpf(str(float(s[1]))) if str(s[1]) not in ("-oo", "oo") else (-mp.inf if str(s[1]) == "-oo" else mp.inf))
                    if a - mp.mpf("1e-9") <= x <= b + mp.mpf("1e-9"):
                        inside = True
            if not inside:
                bad.append({"u": q, "sample": x, "outside_declared_support": str(sup)})
        except Exception:
            pass
    stats["distinct_nontrivial"] = 1
    stats["states"] = 1
    stats["transitions"] = stats["evaluations"]
    res["sample"] = {"family": fam, "params": params, "rvs_args": str(captured[:1])}
    if bad:
        res["violations"].append({"sub": "sampler", "detail": {"family": fam, "params": params, "bad": bad[:4],
                                                                "rvs_args": str(captured[:1])}})
        res["status"] = "violation"
    return res
