"""Independent recursive-descent parser for Polar's input language (inputparser/syntax.lark),
producing the AST of mc.lang.  Arithmetic is evaluated with Python operator precedence by
mc.poly.parse_poly (hand-written precedence climbing).

Readings taken from the grammar file and pinned here:
  * `&&` and `||` have equal precedence and associate to the right (the LALR grammar has a single
    rule `condition (AND|OR) condition`; lark resolves the conflict by shifting);
  * `!` must be followed by a parenthesised condition;
  * inside arithmetic only lower-case letters, digits, `_` and `I` may appear in atoms;
  * `#` starts a comment to the end of the line; indentation is irrelevant; statements are
    separated by one or more newlines.
"""
import re
from fractions import Fraction

from . import lang as L
from .poly import Poly, parse_poly


class RefParseError(Exception):
    pass


class NotPolynomial(Exception):
    """Text is inside the grammar but its arithmetic is not a polynomial the model can hold."""


_TOK = re.compile(r"""
    (?P<nl>(\r?\n[\t ]*)+)
  | (?P<ws>[ \t\f\r]+)
  | (?P<comment>\#[^\n]*)
  | (?P<num>(\d+\.\d*|\.\d+|\d+)([eE][+-]?\d+)?)
  | (?P<name>[A-Za-z_][A-Za-z0-9_]*)
  | (?P<op>\*\*|==|<=|>=|/=|&&|\|\||[-+*/(){}:,=<>!])
""", re.X)

KEYWORDS = {"while", "if", "elif", "else", "end", "types", "true", "false"}
FUNCS = {"Sin", "Cos", "Exp"}
COPS = {"==", "<=", ">=", "/=", "<", ">"}


def tokenize(text, glued=None):
    """-> list of (kind, value).  If `glued` is a list, it receives one bool per token: True when the token
    follows the previous one without any white space (needed for signs, which the grammar only knows as part
    of an ARITHM_ATOM terminal)."""
    toks = []
    i = 0
    sep = True
    while i < len(text):
        m = _TOK.match(text, i)
        if not m:
            raise RefParseError("bad character %r at %d" % (text[i], i))
        i = m.end()
        k = m.lastgroup
        if k in ("ws", "comment"):
            sep = True
            continue
        toks.append((k, m.group(k) if k != "nl" else "\n"))
        if glued is not None:
            glued.append(not sep)
        sep = k == "nl"
    toks.append(("eof", ""))
    if glued is not None:
        glued.append(False)
    return toks


_ARITH_NAME = re.compile(r"^[a-z0-9_I]+$")


class RefParser:
    _prev_was_sign = False

    def __init__(self, text):
        self.glued = []
        self.toks = tokenize(text, self.glued)
        self.i = 0

    # -- token helpers ----------------------------------------------------------------------------
    def peek(self, k=0):
        return self.toks[min(self.i + k, len(self.toks) - 1)]

    def take(self):
        t = self.toks[self.i]
        self.i += 1
        return t

    def at(self, kind, val=None):
        t = self.peek()
        return t[0] == kind and (val is None or t[1] == val)

    def expect(self, kind, val=None):
        if not self.at(kind, val):
            raise RefParseError("expected %s %r, got %r" % (kind, val, self.peek()))
        return self.take()

    def skip_nl(self):
        n = 0
        while self.at("nl"):
            self.take()
            n += 1
        return n

    # -- grammar ------------------------------------------------------------------------------------
    def program(self):
        self.skip_nl()
        types = {}
        if self.at("name", "types"):
            types = self.typedefs()
        init = self.statems(stop={"while"}, allow_empty=True)
        self.expect("name", "while")
        guard = self.condition()
        self.expect("op", ":")
        if not self.skip_nl():
            raise RefParseError("newline expected after loop header")
        body = self.statems(stop={"end"}, allow_empty=False)
        self.expect("name", "end")
        self.skip_nl()
        self.expect("eof")
        return L.Prog(init, guard, body, types)

    def typedefs(self):
        self.expect("name", "types")
        self.skip_nl()
        types = {}
        first = True
        while not self.at("name", "end"):
            if not first:
                pass
            v = self.expect("name")[1]
            self.expect("op", ":")
            tn = self.expect("name")[1]
            if not tn[0].isupper():
                raise RefParseError("type name")
            self.expect("op", "(")
            params = []
            if not self.at("op", ")"):
                params.append(self.arithm())
                while self.at("op", ","):
                    self.take()
                    params.append(self.arithm())
            self.expect("op", ")")
            if tn == "Finite":
                types[v] = [p.const_value() for p in params]
            elif tn == "FiniteRange":
                lo, hi = params[0].const_value(), params[1].const_value()
                types[v] = [Fraction(k) for k in range(int(lo), int(hi) + 1)]
            else:
                raise RefParseError("unknown type " + tn)
            first = False
            if not self.skip_nl():
                break
        self.expect("name", "end")
        self.skip_nl()
        return types

    def statems(self, stop, allow_empty):
        out = []
        while True:
            t = self.peek()
            if t[0] == "name" and t[1] in stop:
                break
            if t[0] == "eof":
                break
            out.append(self.statem())
            if not self.skip_nl():
                raise RefParseError("newline expected after statement, got %r" % (self.peek(),))
        if not out and not allow_empty:
            raise RefParseError("empty statement list")
        return out

    def statem(self):
        if self.at("name", "if"):
            return self.if_statem()
        return self.assign()

    def if_statem(self):
        self.expect("name", "if")
        conds, branches, else_b = [], [], None
        conds.append(self.condition())
        self.expect("op", ":")
        if not self.skip_nl():
            raise RefParseError("newline expected")
        branches.append(self.statems(stop={"elif", "else", "end"}, allow_empty=False))
        while self.at("name", "elif"):
            self.take()
            conds.append(self.condition())
            self.expect("op", ":")
            if not self.skip_nl():
                raise RefParseError("newline expected")
            branches.append(self.statems(stop={"elif", "else", "end"}, allow_empty=False))
        if self.at("name", "else"):
            self.take()
            self.expect("op", ":")
            if not self.skip_nl():
                raise RefParseError("newline expected")
            else_b = self.statems(stop={"end"}, allow_empty=False)
        self.expect("name", "end")
        return L.If(conds, branches, else_b)

    def assign(self):
        targets = [self.variable()]
        while self.at("op", ","):
            self.take()
            targets.append(self.variable())
        self.expect("op", "=")
        rhss = [self.assign_right()]
        while self.at("op", ","):
            self.take()
            rhss.append(self.assign_right())
        if len(targets) != len(rhss):
            raise RefParseError("simultaneous assignment arity")
        return L.Assign(targets, rhss)

    def variable(self):
        t = self.expect("name")
        if t[1] in KEYWORDS:
            raise RefParseError("keyword as variable")
        return t[1]

    def assign_right(self):
        t = self.peek()
        if t[0] == "name" and t[1][0].isupper() and self.peek(1) == ("op", "("):
            name = self.take()[1]
            self.take()
            if name in FUNCS:
                a = self.take()
                if a[0] == "num":
                    arg = Poly.const(Fraction(a[1]))
                elif a[0] == "name":
                    arg = Poly.var(a[1])
                else:
                    raise RefParseError("func argument")
                self.expect("op", ")")
                return L.RFunc(name, arg)
            params = []
            if not self.at("op", ")"):
                params.append(self.arithm())
                while self.at("op", ","):
                    self.take()
                    params.append(self.arithm())
            self.expect("op", ")")
            return L.RDraw(name, params)
        first = self.arithm()
        if not self.at("op", "{"):
            return L.RPoly(first)
        polys, probs = [first], []
        explicit_last = False
        while self.at("op", "{"):
            self.take()
            probs.append(self.arithm())
            self.expect("op", "}")
            if self.at("nl") or self.at("op", ",") or self.at("eof"):
                explicit_last = True
                break
            polys.append(self.arithm())
        if len(polys) < 2:
            raise RefParseError("categorical needs two alternatives")
        if not explicit_last:
            rest = Poly.const(1)
            for p in probs:
                rest = rest - p
            probs.append(rest)
        return L.RChoice(polys, probs, explicit_last)

    def arithm(self):
        """Collect the maximal run of arithmetic tokens and evaluate it with Python precedence."""
        depth = 0
        parts = []
        operand_expected = True
        while True:
            k, v = self.peek()
            if k == "op" and v in ("+", "-") and operand_expected:
                # a sign exists only as the first character of an ARITHM_ATOM terminal: it must be glued to a number / name
                nk, nv = self.peek(1)
                j = min(self.i + 1, len(self.toks) - 1)
                if nk not in ("num", "name") or not self.glued[j] or (parts and parts[-1] in ("+", "-") and self._prev_was_sign):
                    raise RefParseError("sign that is not part of an atom")
                self._prev_was_sign = True
                parts.append(v)
                self.take()
                continue
            self._prev_was_sign = False
            if k in ("num", "name") and not (k == "name" and (v in KEYWORDS or not _ARITH_NAME.match(v))):
                operand_expected = False
            elif k == "op" and v in ("+", "-", "*", "/", "**", "("):
                operand_expected = True
            elif k == "op" and v == ")":
                operand_expected = False
            if k == "num":
                parts.append(v)
            elif k == "name":
                if v in KEYWORDS or not _ARITH_NAME.match(v):
                    break
                parts.append(v)
            elif k == "op" and v in ("+", "-", "*", "/", "**"):
                parts.append(v)
            elif k == "op" and v == "(":
                depth += 1
                parts.append(v)
            elif k == "op" and v == ")":
                if depth == 0:
                    break
                depth -= 1
                parts.append(v)
            else:
                break
            self.take()
        if not parts or depth != 0:
            raise RefParseError("arithmetic expected at %r" % (self.peek(),))
        text = " ".join(parts)
        try:
            return parse_poly(text)
        except (ValueError, IndexError, ZeroDivisionError) as e:
            # distinguish ill-formed arithmetic from well-formed non-polynomial arithmetic
            if _wellformed_arith(parts):
                raise NotPolynomial(text)
            raise RefParseError("arithmetic: %s" % e)

    def condition(self):
        left = self.cond_primary()
        if self.at("op", "&&"):
            self.take()
            return L.And(left, self.condition())
        if self.at("op", "||"):
            self.take()
            return L.Or(left, self.condition())
        return left

    def cond_primary(self):
        if self.at("op", "!"):
            self.take()
            self.expect("op", "(")
            c = self.condition()
            self.expect("op", ")")
            return L.Not(c)
        if self.at("name", "true"):
            self.take()
            return L.TrueC()
        if self.at("name", "false"):
            self.take()
            return L.FalseC()
        if self.at("op", "("):
            # parenthesised condition or parenthesised arithmetic: try the condition first
            save = self.i
            try:
                self.take()
                c = self.condition()
                self.expect("op", ")")
                if self.peek()[0] == "op" and (self.peek()[1] in COPS or self.peek()[1] in "+-*/" or self.peek()[1] == "**"):
                    raise RefParseError("was arithmetic")
                return c
            except (RefParseError, NotPolynomial):
                self.i = save
        lhs = self.arithm()
        t = self.take()
        if t[0] != "op" or t[1] not in COPS:
            raise RefParseError("comparison operator expected, got %r" % (t,))
        rhs = self.arithm()
        return L.Atom(lhs, t[1], rhs)


def _wellformed_arith(parts):
    """Syntactic check of an arithmetic token run (atoms, binary operators, parentheses)."""
    expect_operand = True
    depth = 0
    for p in parts:
        if expect_operand:
            if p in ("+", "-"):
                continue
            if p == "(":
                depth += 1
                continue
            if p in ("*", "/", "**", ")"):
                return False
            expect_operand = False
        else:
            if p in ("+", "-", "*", "/", "**"):
                expect_operand = True
            elif p == ")":
                depth -= 1
                if depth < 0:
                    return False
            else:
                return False
    return not expect_operand and depth == 0


def parse_program(text):
    return RefParser(text).program()
