"""Generates /verif/MANIFEST.json from the table below (python -m mc.manifest)."""
import json
import os

ROOT = os.path.dirname(os.path.dirname(os.path.abspath(__file__)))

BASELINE_OFF = ("cd /repo && env -u POLAR_VERIF /venv/bin/python -m pytest -ra -q -p no:cacheprovider "
                "--timeout=900 --continue-on-collection-errors")

# id -> (level category, level text, design ref, level note, technique)
CHECKS = {
    "C01": ("model_checking",
            "Every program of a bounded statement-sequence grammar is explored exhaustively (all reachable states of its "
            "Markov chain to depth N, exact rational/polynomial probabilities) and Polar's closed form is compared with the "
            "model's E_n(M) at every n <= N (N >= listed special cases + 3), for every goal monomial up to the degree bound. "
            "A pass means: no program of the grammar, no goal, no n in the bound has a wrong value.",
            "DESIGN.md §3 C01, §2.1",
            "Trusted: mc.model reference semantics (hand-computed self-test; bound to Polar's interpreter by C12 path replay), "
            "Fraction arithmetic, sympy subs/expand to evaluate Polar's formula at an integer n. Refusals are allowed.",
            "explicit-state exploration of the program's Markov chain vs closed form, exhaustive over a program grammar"),
    "C02": ("model_checking",
            "Translation validation by bounded exhaustive bisimulation: the real normalize_program runs with every pass's "
            "execute wrapped; after each pass the program is read into the model and explored; the exact joint distribution of "
            "the source variables at every boundary n <= N must equal that of the source model, for every program of the "
            "grammar, every pass boundary and the settings default / transform_categoricals / cond2arithm.",
            "DESIGN.md §3 C02, §2.2",
            "Trusted: mc.irmodel's reading of Polar's object fields and the stated meaning of `v = rhs | cond : default`; "
            "continuous programs compared through mixed moments up to degree 3 only.",
            "explicit-state exploration of source vs. every intermediate program (bounded bisimulation on distributions)"),
    "C03": ("model_checking",
            "Every equation of every recurrence system Polar builds is checked as a pointwise one-step identity in every "
            "reachable state (depth <= N) of the normalised program's state graph, plus initial values, closure and the matrix form.",
            "DESIGN.md §3 C03",
            "Trusted: IR model (bound to the source by C02), exact conversion sympy -> mc.poly.",
            "invariant (one-step expectation identity) evaluated on every state of the explored state graph"),
    "C05": ("model_checking",
            "Polar's normalised program is explored on all paths to depth N and, when finite-state, to the reachability fixed "
            "point; every value any variable with an inferred finite type holds after any statement must be in the type.",
            "DESIGN.md §3 C05",
            "Trusted: IR model; user-declared types are taken as given; fixed point only when the support graph closes below the cap.",
            "reachability analysis of the normalised program (bounded depth + fixed point) against inferred types"),
    "C12": ("model_checking",
            "Stateless prefix-replay exploration of Polar's real Simulator: every resolution of every random choice to depth d "
            "is executed (each schedule twice) and compared path by path with the model (choice weights, path probability, "
            "state after every iteration, stutter). Samplers: rvs replaced by the frozen scipy quantile function built from "
            "the arguments Polar passes; the oracle CDF at the sample must equal the quantile, sample inside declared support.",
            "DESIGN.md §3 C12, §2.3",
            "Integer/dyadic values only (float equality = exact equality); scipy ppf and mpmath CDFs trusted; "
            "random sources intercepted by attribute replacement.",
            "stateless exhaustive path enumeration on the implementation under scripted random sources"),
    "C04": ("exploration",
            "Exhaustive enumeration of matrix alphabets (all 2x2 over a small alphabet, companion matrices, every nilpotent-tail + "
            "cycle shape up to 4x4) x initial vectors x inhomogeneous parts x both solvers x root options; every component at every "
            "n <= dim + 6 compared with exact iteration. No transition structure: an input-grid enumeration, claimed as exploration.",
            "DESIGN.md §3 C04",
            "Trusted: Fraction iteration; sympy subs/expand; numeric modes judged with a 1e-5 relative bound at numeric_eps = 1e-10.",
            "exhaustive enumeration of recurrence systems vs exact iteration"),
    "C06": ("exploration",
            "Exhaustive over all singles, pairs and triples of a menu of 20 closed forms: every polynomial of Polar's invariant basis "
            "is evaluated on independently computed exact sequences at n = 0..12.",
            "DESIGN.md §3 C06",
            "Trusted: hand-written exact evaluators of the menu sequences; sympy substitution/expansion.",
            "exhaustive enumeration of closed-form tuples; invariants evaluated on exact sequences"),
    "C07": ("exploration",
            "Same tuples: the degree-bounded space of all polynomial relations (exact rational nullspace of the evaluation matrix on "
            "120 consecutive n) must lie in the ideal generated by Polar's basis.",
            "DESIGN.md §3 C07",
            "Completeness only up to degree 3 (2 for triples); sympy Groebner membership trusted.",
            "exhaustive enumeration of closed-form tuples; degree-bounded vanishing space vs reported ideal"),
    "C16": ("exploration",
            "Exhaustive over all lists of length <= 3 over a 12-letter rational alphabet and length <= 2 (3) over a 7-letter algebraic "
            "alphabet; the definition is decided by brute force on the whole exponent box: returned vectors are relations, independent, "
            "and generate every relation in the box.",
            "DESIGN.md §3 C16",
            "Completeness only inside the box [-6,6]^k ([-4,4]^3 for triples in quick); algebraic relations by numeric prefilter + minimal polynomial.",
            "exhaustive enumeration of base lists x exponent box against the definition"),
    "C09": ("model_checking",
            "Guarded programs are explored as Markov chains: the conditional expectation given termination is computed exactly at "
            "every n <= N and compared with Polar's moment-given-termination sequence (either alignment T <= n-1 / T <= n, uniformly); "
            "the reported limit is compared with the exact exit expectation from absorbing-chain analysis of the explored state graph "
            "(finite-state monomials) or with a depth-40 estimate with error bar (accumulators); a divergence family must give oo.",
            "DESIGN.md §3 C09, §9",
            "Limits for accumulators use a heuristic error bar (geometric convergence assumed); finite-n values and finite-state limits are exact.",
            "explicit-state exploration + absorbing-chain (probabilistic reachability) analysis vs reported conditional moments and limits"),
    "C10": ("model_checking",
            "Programs with symbolic parameters are explored over Q[p,q]: E_n(M) is an exact polynomial in the parameters, differentiated "
            "exactly; compared at every n <= N as polynomials in the parameters with both of Polar's methods.",
            "DESIGN.md §3 C10",
            "Trusted: mc.poly differentiation; sympy diff of Polar's own closed form reproduces SensitivityAction._diff_closed_form.",
            "explicit-state exploration with polynomial weights vs sensitivity recurrences and closed-form derivative"),
    "C11": ("model_checking",
            "The exact law of M at every n <= N comes from the explored chain; central moments by definition, cumulants by the partition "
            "formula, tails by summation; Polar's values come from GoalParser + GoalsAction handlers (tail bounds from printed --at_n lines). "
            "Expansions: all cumulant vectors of a grid (Gram-Charlier integrals; Cornish-Fisher vs textbook on 9 points of a degree<=4 polynomial).",
            "DESIGN.md §3 C11",
            "Central moments checked for k >= 2; tail bounds only when the printed assumption holds; quadrature at 30 digits.",
            "explicit-state exploration (exact law) vs reported statistics; exhaustive grid for the expansions"),
    "C17": ("model_checking",
            "Every option combination (2^3 strategy flags, declared types with/without inference, numeric root options, eps) is run on every "
            "program of the corpus and each succeeding configuration must equal the reference model at every n <= N.",
            "DESIGN.md §3 C17",
            "Agreement between configurations is decided through the model; numeric modes within a stated tolerance and flagged rounded.",
            "exhaustive enumeration of configurations x explicit-state exploration of each program"),
    "C18": ("model_checking",
            "Programs constructively inside the documented class (membership decided on the oracle's AST and dependency graph) must be "
            "normalised and solved for every monomial of degree <= 2 without any exception, and the result must equal the model.",
            "DESIGN.md §3 C18, §9",
            "CPU-limit overruns are recorded, not counted as refusals; class membership is conservative (path-sensitive finiteness excluded).",
            "exhaustive enumeration of in-class programs; acceptance + explicit-state comparison"),
    "C08": ("exploration",
            "Exhaustive grid: 10 families x parameter tuples x orders k <= 6 x t-grid: moments against closed textbook formulas AND 50-digit "
            "quadrature, support, discreteness, cf/mgf against numeric integrals, Taylor coefficients by Cauchy integrals, mgf existence "
            "domain; DistTransformer rewriting against the original draw's moments for each value of the parameter variable.",
            "DESIGN.md §3 C08",
            "Input-grid enumeration (no transitions); parameters outside the grid are not covered; mpmath quadrature trusted.",
            "exhaustive parameter-grid enumeration against independent densities"),
    "C13": ("exploration",
            "Exhaustive grid: families x parameters x all exponent triples (a,b,c) / pairs (a,c) x exact/rounded mode against 50-digit "
            "quadrature of the defining expectation; Sin*Exp mixing and non-existent exponential moments must be rejected; constants; a "
            "program family with iid increments built from Sin/Cos/Exp/Id of a draw, a reference to it, or a constant.",
            "DESIGN.md §3 C13",
            "Input-grid enumeration; program family restricted to iid increments so that E(x_n), E(x_n^2) follow from m1, m2.",
            "exhaustive grid enumeration against numeric integrals"),
    "C19": ("exploration",
            "Every applicable instance of 8 meaning-preserving rewrites of the seed texts (analysed and compared with the model of the "
            "original), precedence probes, every single-token deletion / duplication / substitution of the seeds (accept <=> independent "
            "recogniser accepts; same chain when both accept), all probability vectors of length <= 3 over 7 values.",
            "DESIGN.md §3 C19",
            "Reference recogniser reads syntax.lark literally; keyword-as-name texts (contextual lexing) are not judged.",
            "exhaustive single-edit neighbourhoods of seed texts against an independent parser + model"),
    "C20": ("model_checking",
            "All operation histories of length <= 2 (3 thorough) over an 11-operation alphabet colliding on every process-global state, each "
            "history in one fresh interpreter: the last operation's canonical result must equal its fresh-process result; all goal orders; "
            "hash seeds 0..3 (0..11).",
            "DESIGN.md §3 C20",
            "Results compared up to generated names; settings module reset before each operation (an operation states its settings).",
            "exhaustive exploration of operation histories (sequential model checking of process-global state)"),
    "C14": ("model_checking",
            "The original unsolvable loop is explored with symbolic initial values; every returned (Q, f) must satisfy E(Q(state_n)) = f(n) "
            "for n <= N as polynomials in the initial values and free coefficients; every synthesised loop is executed through the IR model "
            "and must reproduce E_n(v) for each retained source variable and E_n(Q) for the fresh variable.",
            "DESIGN.md §3 C14",
            "Depth N = 4; 9 benchmark loops + a generated family; solver CPU limits are refusals.",
            "explicit-state exploration with symbolic initial values vs synthesised invariants and loops"),
    "C15": ("model_checking",
            "Small networks (5 DAG shapes, domain sizes 2/3, CPT rows from a menu) x all notation mixes x sanitised/colliding names: parsed "
            "CPTs, the generated program's one-iteration joint law (explored through the IR model) and printed query answers are compared "
            "with the brute-force joint law; malformed variants must raise.",
            "DESIGN.md §3 C15",
            "`table` ordering convention as stated in the property's anchors; printed answers compared to 1e-9.",
            "exhaustive enumeration of small networks; explicit-state exploration of the generated program vs brute-force joint law"),
}

NOT_YET = {}


def build():
    checks = []
    for cid in sorted(CHECKS):
        cat, text, ref, note, tech = CHECKS[cid]
        checks.append({
            "property_id": cid,
            "quick_cmd": "./check %s --tier quick" % cid,
            "thorough_cmd": "./check %s --tier thorough" % cid,
            "evidence_file": "/verif/evidence/%s.json" % cid,
            "replay_cmd_template": "./check %s --replay {path}" % cid,
            "engine": "mc",
            "level_claimed": {"category": cat, "text": text, "design_ref": ref},
            "level_note": note,
            "technique": tech,
        })
    all_ids = ["C%02d" % i for i in range(1, 21)]
    na = [{"property_id": i, "reason": NOT_YET.get(i, "check not built yet in this session; see DESIGN.md §3 for the planned exploration")}
          for i in all_ids if i not in CHECKS]
    man = {
        "version": 1,
        "setup_cmd": "mkdir -p evidence replays && /venv/bin/python -m mc.selftest",
        "hooks": {
            "guard": "POLAR_VERIF",
            "enable": "no source hooks: checks import /repo's working tree directly and intercept random sources / "
                      "Transformer.execute from the harness by attribute replacement (POLAR_VERIF=1 is exported but unused by /repo)",
            "baseline_off_cmd": BASELINE_OFF,
            "source_commits": [],
            "add_only": True,
        },
        "engines": [{"name": "mc", "path": "/verif/mc", "serves_properties": sorted(CHECKS),
                     "kind_free_text": "hand-written explicit-state explorer for Polar's loop language (Python, exact arithmetic) "
                                       "+ exhaustive input enumerators; drives the real Polar code in forked workers"}],
        "checks": checks,
        "not_applicable": na,
        "notes": "Fix commits in /repo (unguarded, 'fix:'): see known_findings.json. All checks: exit 0 / exit 1 + VIOLATION line; "
                 "KNOWN-FINDING lines for listed unrepaired defects.",
    }
    return man


if __name__ == "__main__":
    with open(os.path.join(ROOT, "MANIFEST.json"), "w") as f:
        json.dump(build(), f, indent=1)
    print("MANIFEST.json written")
