"""C05 — inferred finite types contain every value a variable can ever take.

For every program: Polar's normalised program is read into the IR model and explored — all paths,
every statement of every iteration, to depth N and (finite-state programs) to the reachability fixed
point; every value observed for a variable with an *inferred* Finite type must be in the type.
"""
from ..common import base_programs, exc_name
from ..model import Model, NotApplicable, CapHit
from ..refparser import parse_program, NotPolynomial
from ..pool import cpu_limit, CpuTimeout
from .. import gen

ID = "C05"
LEVEL = "model_checking"
BUDGET = {"quick": 200, "thorough": 3000}
ASSUMPTIONS = [
    "IR programs interpreted from object fields (mc.irmodel); user-declared types are taken as given",
    "depth-bounded exploration (N) plus fixed-point reachability on supports when the IR is finite-state (cap 20000)",
]

EXTRA = [
    "x = 0\nc = 1\nwhile c == 1:\n    c = Bernoulli(1/2)\n    x = 1\n    x = x + 1\nend\n",
    "x = 0\nc = 1\nd = 0\nwhile c == 1:\n    c = Bernoulli(1/2)\n    d = Bernoulli(1/2)\n    x = 1\n    if d == 1:\n        x = x + 2\n    end\nend\n",
    "x = 0\nc = 1\nwhile c == 1 && x < 2:\n    c = Bernoulli(1/2)\n    x = x + c\n    x = x*1\nend\n",
    "types\n    y : Finite(0, 1)\nend\ny = 0\nc = 1\nwhile c == 1:\n    c = Bernoulli(1/2)\n    y = 1 - y\n    y = y {1/2} 1 - y\n    y = y*y\nend\n",
    "c = 0\nx = 2\nwhile true:\n    c = DiscreteUniform(0, 2)\n    x = c\n    x = x*x\n    x = x - c\nend\n",
    # backward copy chains lagging behind an unbounded / a slowly growing variable (fixed-point budget)
    "s = 0\nw = 0\nz = 0\ny = 0\nx = 0\nwhile true:\n    s = w\n    w = z\n    z = y\n    y = x\n    x = x + 1 {1/2} x\nend\n",
    "w = 0\nz = 0\ny = 0\nx = 0\nc = 0\nwhile true:\n    w = z\n    z = y\n    y = x\n    x = c\n    c = DiscreteUniform(0, 2)\nend\n",
    "z = 0\ny = 0\nx = 0\nwhile true:\n    z = y\n    y = x\n    x = 1 - x\nend\n",
    "c = 1\nx = 5\nwhile c == 1:\n    x = 1\n    c = 0\n    x = x + 1\n    x = x + 1\nend\n",
    # Sin/Cos/Exp of the constant 0, conditioned after another assignment (the typed value set must keep the default's values)
    "c = 0\ny = 0\ns = 0\nwhile true:\n    c = Bernoulli(1/2)\n    y = 3\n    if c == 1:\n        y = Cos(0)\n    end\n    s = y**2\nend\n",
    "c = 1\ny = 2\ns = 0\nwhile c == 1:\n    c = Bernoulli(1/2)\n    y = 4\n    if c == 0:\n        y = Exp(0)\n    end\n    s = s + y**2\nend\n",
    # a conditioned constant assignment after a copy that lags one pass behind, read by variables assigned EARLIER in the body
    "w = 0\nx = 0\ns = 0\ny = 0\nc = 0\nwhile true:\n    y = s**2\n    s = 4*x**2\n    c = Bernoulli(1/2)\n    x = w\n    if c == 1:\n        x = 0\n    end\n    w = Bernoulli(1/2)\nend\n",
    "w = 1\nx = 1\ns = 0\nc = 0\nwhile true:\n    s = x + 2*s - s*s\n    c = Bernoulli(1/2)\n    x = w\n    if c == 0:\n        x = 1\n    end\n    w = DiscreteUniform(1, 3)\nend\n",
    # a variable assigned more than once in the initial block (the last assignment gives the initial values)
    "x = 1\nx = 7\ny = 0\nwhile true:\n    y = Bernoulli(1/2)\n    x = x*y\nend\n",
    "c = Bernoulli(1/2)\nx = c\nx = 3*x + 2\ny = 0\nwhile true:\n    y = Bernoulli(1/2)\n    x = x*y + y\nend\n",
    # non-integer value sets of every size / span relation (|values| = span + 1 with fractions, evenly spaced halves, thirds)
    "h = 1/2\nx = 0\nc = 0\nwhile true:\n    x = DiscreteUniform(0, 2)\n    h = x + 1/2\n    if h > 1:\n        c = 1\n    else:\n        c = 0\n    end\nend\n",
    "h = 0\ny = 0\nwhile true:\n    h = 0 {1/3} 1/2 {1/3} 2\n    y = y + h**3\nend\n",
    "h = 1/3\nx = 0\ny = 0\nwhile true:\n    x = DiscreteUniform(0, 3)\n    h = x/3 + 1/3\n    if h >= 1:\n        y = y + 1\n    end\nend\n",
    "h = 0\nk = 0\ny = 0\nwhile true:\n    h = -1/2 {1/4} 1/2 {1/4} 3/2 {1/4} 5/2\n    k = h*h\n    y = y + k\nend\n",
]


def rule(tier):
    return ("programs of the statement-sequence grammar (+ guarded multi-assignment seeds) x type_fp_iterations settings; "
            "every value held by any typed variable after any statement on any path; non-trivial = program with >= 1 "
            "inferred finite type over >= 2 values and >= 2 reachable states")


def bounds(tier):
    return {"depth_N": 4 if tier == "quick" else 6, "fixpoint_cap": 20000,
            "type_fp_iterations": "100 and 1 for every program; 2 and 3 for the seeds and the first 60 programs (quick) / all (thorough)"}


def cases(tier, seed):
    out = []
    N = 4 if tier == "quick" else 6
    progs = EXTRA + base_programs(tier, extended=True)
    for i, text in enumerate(progs):
        its = [100, 1, 2, 3] if (tier != "quick" or i < len(EXTRA) + 60) else [100, 1]
        for it in its:
            out.append({"input": {"text": text, "type_fp_iterations": it}, "N": N})
    return out


def check_types(text, settings, N, stats):
    """-> list of violation details"""
    from .. import polar, irmodel

    src = parse_program(text)
    declared = set(src.types)
    program = polar.normalize(polar.parse(text))
    irp = irmodel.conv_program(program)
    if getattr(irp, "abstracted", None):
        raise NotApplicable("bernoulli abstraction")
    types = irmodel.typedefs_of(program)
    m = Model(irp, max_states=20000)
    try:
        m.run(N)
    except CapHit:
        stats["caps_hit"] = stats.get("caps_hit", 0) + 1
    closed = False
    if not m.atoms:
        try:
            nst, closed = m.reach_fixpoint(cap=20000)
        except (NotApplicable, CapHit):
            closed = False
    stats["fixpoint_closed"] = stats.get("fixpoint_closed", 0) + (1 if closed else 0)
    stats["states"] = m.states_seen
    stats["transitions"] = m.transitions
    bad = []
    ntyped = 0
    for v, vals in types.items():
        if v in declared:
            continue
        ntyped += 1 if len(vals) >= 2 else 0
        for val in m.reach.get(v, ()):
            stats["evaluations"] += 1
            if not val.is_const() or val.const_value() not in vals:
                bad.append({"variable": v, "type": [str(x) for x in vals], "reached": val.to_text()})
                break
    return bad, ntyped, irp, m


def run_case(case):
    from .. import polar

    text = case["input"]["text"]
    stats = {"programs": 1, "evaluations": 0, "refusals": {}}
    res = {"status": "ok", "stats": stats, "violations": []}
    polar.reset_settings(type_fp_iterations=case["input"]["type_fp_iterations"])
    try:
        try:
            with cpu_limit(60):
                bad, ntyped, irp, m = check_types(text, {}, case["N"], stats)
        except (NotApplicable, NotPolynomial, CapHit):
            res["status"] = "na"
            return res
        except CpuTimeout:
            stats["refusals"]["timeout"] = 1
            res["status"] = "refusal"
            return res
        except Exception as e:
            stats["refusals"][exc_name(e)] = 1
            res["status"] = "refusal"
            return res
        if ntyped and m.states_seen > len(m.dists):
            stats["distinct_nontrivial"] = 1
            res["sample"] = {"program": text, "normalised": irp.text(),
                             "reach": {v: sorted(x.to_text() for x in s)[:6] for v, s in m.reach.items()}}
        for b in bad:
            res["violations"].append({"sub": "type:" + b["variable"], "detail": dict(b, program=text, ir=irp.text())})
        if bad:
            res["status"] = "violation"
        return res
    finally:
        polar.reset_settings()
