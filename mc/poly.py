"""Sparse multivariate polynomials over Fraction.  The value domain of the reference model.

A monomial is a tuple of (name, exponent) pairs sorted by name; a polynomial is a dict
monomial -> non-zero Fraction.  Instances are immutable and hashable (canonical key).
Written from scratch so that the oracle shares no arithmetic code with Polar (sympy/symengine).
"""
from fractions import Fraction
from functools import reduce


def _mono_mul(a, b):
    if not a:
        return b
    if not b:
        return a
    d = dict(a)
    for v, e in b:
        d[v] = d.get(v, 0) + e
    return tuple(sorted(d.items()))


class Poly:
    __slots__ = ("t", "_k")

    def __init__(self, terms=None):
        self.t = {m: c for m, c in (terms or {}).items() if c != 0}
        self._k = None

    # ---- constructors -------------------------------------------------------------------
    @staticmethod
    def const(c):
        c = Fraction(c)
        return Poly({(): c}) if c != 0 else Poly()

    @staticmethod
    def var(name, e=1):
        return Poly({((name, e),): Fraction(1)})

    @staticmethod
    def coerce(x):
        if isinstance(x, Poly):
            return x
        if isinstance(x, str):
            return Poly.var(x)
        return Poly.const(x)

    # ---- inspection ---------------------------------------------------------------------
    def key(self):
        if self._k is None:
            self._k = tuple(sorted(self.t.items()))
        return self._k

    def __hash__(self):
        return hash(self.key())

    def __eq__(self, o):
        if not isinstance(o, Poly):
            o = Poly.coerce(o)
        return self.t == o.t

    def is_const(self):
        return all(m == () for m in self.t)

    def const_value(self):
        if not self.is_const():
            raise ValueError("not a constant: %s" % self)
        return self.t.get((), Fraction(0))

    def is_zero(self):
        return not self.t

    def variables(self):
        return {v for m in self.t for v, _ in m}

    def degree(self):
        return max((sum(e for _, e in m) for m in self.t), default=0)

    def degree_in(self, name):
        return max((e for m in self.t for v, e in m if v == name), default=0)

    # ---- arithmetic ---------------------------------------------------------------------
    def __add__(self, o):
        o = Poly.coerce(o)
        d = dict(self.t)
        for m, c in o.t.items():
            s = d.get(m, 0) + c
            if s == 0:
                d.pop(m, None)
            else:
                d[m] = s
        return Poly(d)

    __radd__ = __add__

    def __neg__(self):
        return Poly({m: -c for m, c in self.t.items()})

    def __sub__(self, o):
        return self + (-Poly.coerce(o))

    def __rsub__(self, o):
        return Poly.coerce(o) - self

    def __mul__(self, o):
        o = Poly.coerce(o)
        d = {}
        for m1, c1 in self.t.items():
            for m2, c2 in o.t.items():
                m = _mono_mul(m1, m2)
                s = d.get(m, 0) + c1 * c2
                if s == 0:
                    d.pop(m, None)
                else:
                    d[m] = s
        return Poly(d)

    __rmul__ = __mul__

    def __pow__(self, k):
        k = int(k)
        if k < 0:
            if self.is_const():
                return Poly.const(Fraction(1) / (self.const_value() ** (-k)))
            raise ValueError("negative power of non-constant")
        r = Poly.const(1)
        b = self
        while k:
            if k & 1:
                r = r * b
            b = b * b
            k >>= 1
        return r

    def __truediv__(self, o):
        o = Poly.coerce(o)
        c = o.const_value()
        return Poly({m: v / c for m, v in self.t.items()})

    # ---- substitution / evaluation / calculus ---------------------------------------------
    def subs(self, env):
        """env: name -> Poly/number.  Simultaneous substitution."""
        if not any(v in env for v in self.variables()):
            return self
        res = Poly()
        for m, c in self.t.items():
            term = Poly.const(c)
            for v, e in m:
                if v in env:
                    term = term * (Poly.coerce(env[v]) ** e)
                else:
                    term = term * Poly.var(v, e)
            res = res + term
        return res

    def eval(self, env):
        return self.subs(env).const_value()

    def diff(self, name):
        d = {}
        for m, c in self.t.items():
            md = dict(m)
            e = md.get(name, 0)
            if e == 0:
                continue
            if e == 1:
                del md[name]
            else:
                md[name] = e - 1
            mm = tuple(sorted(md.items()))
            d[mm] = d.get(mm, 0) + c * e
        return Poly(d)

    def map_monomials(self, f):
        """f(monomial_tuple) -> Poly ; returns sum c * f(m).  Used for expectations over atoms."""
        res = Poly()
        for m, c in self.t.items():
            res = res + f(m) * c
        return res

    # ---- printing -------------------------------------------------------------------------
    def to_text(self, paren_neg=True):
        """Text in Polar's arithmetic syntax (also valid Python / sympy)."""
        if not self.t:
            return "0"
        parts = []
        for m, c in sorted(self.t.items(), key=lambda mc: (-sum(e for _, e in mc[0]), mc[0])):
            mon = "*".join(v if e == 1 else "%s**%d" % (v, e) for v, e in m)
            a = abs(c)
            if a.denominator == 1:
                cs = str(a.numerator)
            else:
                cs = "%d/%d" % (a.numerator, a.denominator)
            if not mon:
                body = cs
            elif a == 1:
                body = mon
            else:
                body = cs + "*" + mon if a.denominator == 1 else "(" + cs + ")*" + mon
            parts.append(("-" if c < 0 else "+", body))
        s = ""
        for i, (sg, body) in enumerate(parts):
            if i == 0:
                s = body if sg == "+" else "-" + body
            else:
                s += " %s %s" % (sg, body)
        return s

    def __repr__(self):
        return "Poly(%s)" % self.to_text()

    __str__ = to_text


ZERO = Poly()
ONE = Poly.const(1)


def psum(ps):
    return reduce(lambda a, b: a + b, ps, ZERO)


def pprod(ps):
    return reduce(lambda a, b: a * b, ps, ONE)


def parse_poly(text):
    """Parse a polynomial text produced by to_text / simple Python arithmetic into a Poly.

    Hand-written precedence-climbing parser (+ - * / ** unary minus, parentheses, integers,
    decimals, identifiers).  Used by the reference parser and for reading stored cases.
    """
    toks = _tokenize(text)
    pos = [0]

    def peek():
        return toks[pos[0]] if pos[0] < len(toks) else None

    def take():
        tk = toks[pos[0]]
        pos[0] += 1
        return tk

    def expr():
        v = term()
        while peek() in ("+", "-"):
            op = take()
            r = term()
            v = v + r if op == "+" else v - r
        return v

    def term():
        v = unary()
        while peek() in ("*", "/"):
            op = take()
            r = unary()
            v = v * r if op == "*" else v / r
        return v

    def unary():
        if peek() == "-":
            take()
            return -unary()
        if peek() == "+":
            take()
            return unary()
        return power()

    def power():
        b = atom()
        if peek() == "**":
            take()
            e = unary()  # right assoc, binds tighter than unary minus on its left
            return b ** int(e.const_value())
        return b

    def atom():
        tk = take()
        if tk == "(":
            v = expr()
            if take() != ")":
                raise ValueError("expected )")
            return v
        if tk[0].isdigit() or tk[0] == ".":
            return Poly.const(Fraction(tk))
        if tk[0].isalpha() or tk[0] == "_" or tk[0] == "@":
            return Poly.var(tk)
        raise ValueError("unexpected token %r" % tk)

    v = expr()
    if pos[0] != len(toks):
        raise ValueError("trailing tokens in %r" % text)
    return v


def _tokenize(text):
    toks = []
    i = 0
    while i < len(text):
        ch = text[i]
        if ch.isspace():
            i += 1
        elif text.startswith("**", i):
            toks.append("**")
            i += 2
        elif ch in "+-*/()":
            toks.append(ch)
            i += 1
        elif ch.isdigit() or ch == ".":
            j = i
            while j < len(text) and (text[j].isdigit() or text[j] == "."):
                j += 1
            toks.append(text[i:j])
            i = j
        elif ch.isalpha() or ch == "_" or ch == "@":
            j = i
            while j < len(text) and (text[j].isalnum() or text[j] in "_@#"):
                j += 1
            toks.append(text[i:j])
            i = j
        else:
            raise ValueError("bad character %r in %r" % (ch, text))
    return toks
