"""C06 part (b): invariants end to end.  Loops go through GoalsAction.handle_all_goals with --invariants; every printed
`poly = 0` is evaluated on goal sequences computed by the REFERENCE MODEL (not by Polar's formulas) for every n beyond the
special cases Polar itself prints for those goals."""
import contextlib
import io
import re

from .common import build_model, exc_name
from .model import NotApplicable, CapHit
from .refparser import NotPolynomial, RefParseError
from .poly import parse_poly, Poly
from .pool import cpu_limit, CpuTimeout

LOOPS = [
    # (program, goals)
    ("x = 1\ny = 1\nwhile true:\n    x = 2*x\n    y = 4*y\nend\n", ["E(x)", "E(y)"]),
    ("x = 0\ny = 0\nwhile true:\n    y = y + 2*x + 1\n    x = x + 1\nend\n", ["E(x)", "E(y)"]),
    ("x = 1\ny = 0\nz = 0\nwhile true:\n    z = z + y\n    y = y + x\n    x = 2*x\nend\n", ["E(x)", "E(y)", "E(z)"]),
    ("x = 1\ny = 1\nz = 1\nwhile true:\n    x = 4*x\n    y = 8*y\n    z = z/2\nend\n", ["E(x)", "E(y)", "E(z)"]),
    ("x = 0\ny = 0\nwhile true:\n    x = x + 1 {1/2} x - 1\n    y = y + 1\nend\n", ["E(x)", "E(x**2)", "E(y)"]),
    ("x = 0\ny = 0\nwhile true:\n    x = x + 1 {1/2} x - 1\n    y = y + x\nend\n", ["E(x**2)", "E(y**2)", "E(x*y)"]),
    ("x = 0\ny = 0\nwhile true:\n    x = x + 1 {1/2} x - 1\n    y = y + 2\nend\n", ["c2(x)", "E(y)", "k2(x)"]),
    ("x = 0\nc = 0\ny = 1\nwhile true:\n    c = Bernoulli(1/2)\n    x = x + c\n    y = 2*y\nend\n", ["E(x)", "c2(x)", "k3(x)", "E(y)"]),
    ("x = 1\ny = 1\nwhile true:\n    x, y = y, x + y\nend\n", ["E(x)", "E(y)"]),
    ("x = 2\ny = 1\nwhile true:\n    x = -2*x\n    y = 4*y\nend\n", ["E(x)", "E(y)"]),
    ("x = 0\ny = 0\nz = 5\nwhile true:\n    y = x\n    x = 1\n    z = z + 1\nend\n", ["E(x)", "E(y)", "E(z)"]),
    ("x = 1\ny = 3\nwhile true:\n    x = x/2 + 1\n    y = y/4\nend\n", ["E(x)", "E(y)"]),
]


def loop_cases(tier):
    return [{"input": {"kind": "loop", "text": t, "goals": g}} for t, g in LOOPS]


def _goal_value(model, goal, n):
    """Exact value of a goal (E / cK / kK of a monomial) at n from the model's raw moments."""
    from .checks.c11 import cumulant_from_moments
    from fractions import Fraction as F
    from math import comb

    m = re.match(r"^(E|c|k)(\d*)\((.*)\)$", goal)
    kind, order, mono = m.group(1), m.group(2), parse_poly(m.group(3))
    if kind == "E":
        return model.moment(mono, n).const_value()
    k = int(order)
    raw = {i: model.moment(mono ** i, n).const_value() for i in range(1, k + 1)}
    raw[0] = F(1)
    if kind == "c":
        if k == 1:
            return raw[1]
        return sum(comb(k, j) * (-1) ** (k - j) * raw[j] * raw[1] ** (k - j) for j in range(k + 1))
    return cumulant_from_moments(raw, k)


def check_loop(inp, mode):
    import sympy
    from . import polar

    text, goals = inp["text"], inp["goals"]
    stats = {"evaluations": 0, "refusals": {}, "programs": 1}
    res = {"status": "ok", "stats": stats, "violations": []}
    try:
        with cpu_limit(20):
            model = build_model(text)
            model.run(4)
    except (NotApplicable, NotPolynomial, RefParseError, CapHit, CpuTimeout):
        res["status"] = "na"
        return res
    from cli.actions.goals_action import GoalsAction
    from recurrences import RecBuilder

    polar.reset_settings()
    args = polar.cli_defaults()
    args.goals = list(goals)
    args.invariants = True
    try:
        with cpu_limit(90):
            program = polar.normalize(polar.parse(text))
            ga = GoalsAction(args)
            ga.initialize_program(program, RecBuilder(program))
            buf = io.StringIO()
            with contextlib.redirect_stdout(buf):
                ga.handle_all_goals()
    except CpuTimeout:
        stats["refusals"]["timeout"] = 1
        res["status"] = "refusal"
        return res
    except Exception as e:
        stats["refusals"][exc_name(e)] = 1
        res["status"] = "refusal"
        return res
    printed = buf.getvalue()
    head, _, inv_part = printed.partition("Invariants")
    # number of special cases Polar lists for the goals
    k = 0
    for line in head.split("\n"):
        m = re.match(r"^\S.* = (.*)$", line)
        if m and ";" in m.group(1) and "≅" not in line:
            k = max(k, len(m.group(1).split(";")) - 1)
        for b in re.findall(r"n <= (\d+)", line):
            # a Piecewise that prettify_piecewise left unformatted still lists its special cases
            k = max(k, int(b) + 1)
    lines = [l.strip()[:-4].strip() for l in inv_part.split("\n") if l.strip().endswith("= 0")]
    res["sample"] = {"program": text, "goals": goals, "invariants": lines, "special_cases": k}
    if lines:
        stats["distinct_nontrivial"] = 1
    # identifiers: E(mono) for probabilistic programs, plain mono otherwise; cK(..), kK(..)
    idents = {}
    for g in goals:
        m = re.match(r"^(E|c|k)(\d*)\((.*)\)$", g)
        mono = sympy.sympify(m.group(3))
        if m.group(1) == "E":
            ident = "E(%s)" % mono if program.is_probabilistic else str(mono)
        else:
            ident = "%s%s(%s)" % (m.group(1), m.group(2), mono)
        idents[ident] = g
    for line in lines:
        expr = line
        syms = {}
        for i, ident in enumerate(sorted(idents, key=len, reverse=True)):
            syms[ident] = sympy.Symbol("G%d" % i)
            expr = expr.replace(ident, "G%d" % i)
        try:
            e = sympy.sympify(expr)
        except Exception:
            stats["unparsable_invariants"] = stats.get("unparsable_invariants", 0) + 1
            continue
        extra = e.free_symbols - set(syms.values())
        if extra:
            res["violations"].append({"sub": "invariant", "detail": {"program": text, "goals": goals, "invariant": line,
                                                                   "problem": "mentions symbols that are not goals: %s" % sorted(map(str, extra))}})
            continue
        for n in range(k, k + 9):
            try:
                with cpu_limit(30):
                    vals = {}
                    for ident, s in syms.items():
                        v = _goal_value(model, idents[ident], n)
                        vals[s] = sympy.Rational(v.numerator, v.denominator)
                    val = sympy.expand(e.xreplace(vals))
            except (CpuTimeout, NotApplicable, CapHit, ValueError):
                break
            stats["evaluations"] += 1
            if val != 0:
                res["violations"].append({"sub": "invariant", "detail": {"program": text, "goals": goals, "invariant": line, "n": n,
                                                                       "value_on_model_sequences": str(val)}})
                break
    if res["violations"]:
        res["status"] = "violation"
    return res
