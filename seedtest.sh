#!/bin/bash
# usage: seedtest.sh <seed dir with patch.diff> <check id>...   -- applies the patch to /repo, runs the quick checks, reverts.
set -u
d=$1; shift
cd /repo || exit 2
if ! git diff --quiet; then echo "repo dirty"; exit 2; fi
git apply "$d/patch.diff" || { echo "patch does not apply"; exit 2; }
for c in "$@"; do
  out=$(cd /verif && ./check $c 2>&1 | grep -E "^(VIOLATION|C[0-9]+ quick)" | head -3)
  echo "== $c: $(echo "$out" | tr '\n' ' ' | cut -c1-400)"
done
git -C /repo checkout -- . 
git -C /repo status --short | head -3
