"""C20 — results are independent of process history, goal order and hash seed.

Model checking over operation histories: ALL sequences of length <= 2 (quick) / <= 3 (thorough) over an
alphabet of analysis operations chosen to collide on every piece of process-global state found in the
code (unique-name counter, class-level exact_func_moments flag, settings module, lru caches keyed on
values, `_b`/`_inv` symbol names, exceptions mid-normalisation).  Each history runs in ONE fresh
interpreter; the canonical result of its last operation must equal the result of that operation in a
fresh process.  Plus: all 6 orders of 3 goals for each program of c20ops.PERM_PROGS, every ordered pair of benchmark files handled by ONE
CLI action object (as `polar.py A.prob B.prob ...` does) for six argument sets, and PYTHONHASHSEED in 0..K for every operation.
"""
import itertools
import json
import os
import subprocess
import sys
from concurrent.futures import ThreadPoolExecutor

ID = "C20"
LEVEL = "model_checking"
BUDGET = {"quick": 230, "thorough": 3300}
CONFIRM_FRESH = True
RECYCLE = 1000
ASSUMPTIONS = [
    "results are compared up to the names of generated auxiliary symbols (renamed by order of first appearance)",
    "an operation states its settings explicitly (the settings module is reset to defaults before each operation); everything "
    "else that survives in the process (counters, class flags, caches) is the explored history",
]

ROOT = os.path.dirname(os.path.dirname(os.path.dirname(os.path.abspath(__file__))))
ALPHABET = ["catif", "cat3", "gamA", "gamB", "finA", "finB", "finC", "finD", "trig_exact", "trig_rounded", "trig_lag", "cat", "cat_transformed", "ifs", "inv", "inv9", "fail", "sens"]
from ..c20ops import PERM_PROGS, CLI_GROUPS

PERMS = ["perm_%s_%d" % (k, i) for k in PERM_PROGS for i in range(6)]


def rule(tier):
    return ("all histories of length <= %d over %d operations, each in a fresh interpreter; all 6 goal orders of %d programs; hash seeds 0..%d per "
            "operation; non-trivial = history of length >= 2 whose last operation returns a result (not an exception)") % (
        2 if tier == "quick" else 3, len(ALPHABET), len(PERM_PROGS), 3 if tier == "quick" else 11)


def bounds(tier):
    return {"history_length": 2 if tier == "quick" else 3, "alphabet": ALPHABET}


def run_history(names, hashseed=0, timeout=600):
    env = dict(os.environ)
    env["PYTHONHASHSEED"] = str(hashseed)
    env["PYTHONDONTWRITEBYTECODE"] = "1"
    env["PYTHONWARNINGS"] = "ignore"
    try:
        r = subprocess.run([sys.executable, "-m", "mc.c20ops", json.dumps(names)], cwd=ROOT, env=env, capture_output=True,
                           text=True, timeout=timeout)
    except subprocess.TimeoutExpired:
        return None
    for line in r.stdout.split("\n"):
        if line.startswith("C20RESULT "):
            return json.loads(line[len("C20RESULT "):])
    return None


def cases(tier, seed):
    out = []
    for op in ALPHABET:
        for hs in range(1, 4 if tier == "quick" else 12):
            out.append({"input": {"kind": "hashseed", "history": [op], "hashseed": hs}})
    for p in PERMS:
        if p.endswith("_0"):
            continue
        out.append({"input": {"kind": "perm", "history": [p], "hashseed": 0}})
    # the CLI's loop over several benchmark files with ONE action object: output for the last file == output for it alone
    for a, fs in CLI_GROUPS.items():
        for f in fs:
            for g in fs:
                if g != f:
                    out.append({"input": {"kind": "cli_pair", "history": ["cli_%s_%s_then_%s" % (a, g, f)], "hashseed": 0}})
    for a, b in itertools.product(ALPHABET, repeat=2):
        out.append({"input": {"kind": "history", "history": [a, b], "hashseed": 0}})
    if tier != "quick":
        small = ["finA", "trig_exact", "trig_rounded", "trig_lag", "cat_transformed", "ifs", "inv9", "fail"]
        for h in itertools.product(small, repeat=3):
            out.append({"input": {"kind": "history", "history": list(h), "hashseed": 0}})
    return out


_BASE = {}


def baseline(op):
    if op not in _BASE:
        r = run_history([op], 0)
        _BASE[op] = r[0] if r else None
    return _BASE[op]


def run_case(case):
    inp = case["input"]
    hist = inp["history"]
    stats = {"evaluations": 1, "refusals": {}, "states": len(hist), "transitions": len(hist), "traces_validated_against_impl": 1}
    res = {"status": "ok", "stats": stats, "violations": []}
    last = hist[-1]
    ref_op = last.rsplit("_", 1)[0] + "_0" if inp["kind"] == "perm" else last
    if inp["kind"] == "cli_pair":
        head, f = last.rsplit("_then_", 1)
        ref_op = head.rsplit("_", 1)[0] + "_" + f
    base = baseline(ref_op)
    got = run_history(hist, inp["hashseed"])
    if base is None or got is None:
        stats["refusals"]["timeout"] = 1
        res["status"] = "refusal"
        return res
    got = got[-1]
    if "exception" not in got and (len(hist) >= 2 or inp["kind"] == "cli_pair"):
        stats["distinct_nontrivial"] = 1
    res["sample"] = {"history": hist, "hashseed": inp["hashseed"], "last_result": json.dumps(got)[:300]}
    if got != base:
        diff = {}
        for k in set(got) | set(base):
            if got.get(k) != base.get(k):
                diff[k] = {"in_history": json.dumps(got.get(k))[:400], "fresh": json.dumps(base.get(k))[:400]}
        res["violations"].append({"sub": "result-differs", "detail": {"history": hist, "hashseed": inp["hashseed"], "difference": diff}})
        res["status"] = "violation"
    return res
