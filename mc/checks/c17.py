"""C17 — strategy and representation options do not change any reported result.

programs x all combinations of {cond2arithm, transform_categoricals, force_cyclic_solver} x
{inferred types, declared types, declared types + disable_type_inference} and the root options
{exact, numeric_roots, numeric_croots} x numeric_eps.  Every configuration that succeeds must agree
with the reference model at every n <= N (hence any two succeeding configurations agree with each
other, and a common error is not mistaken for agreement).  Numeric-root results may deviate only
within a tolerance and must then be flagged rounded.
"""
import itertools
import re

from .. import gen
from ..common import base_programs, analyse_program_goals, build_model
from ..model import NotApplicable, CapHit

ID = "C17"
LEVEL = "model_checking"
BUDGET = {"quick": 220, "thorough": 3300}
ASSUMPTIONS = [
    "agreement of configurations is decided through the reference model (each succeeding configuration must equal it)",
    "numeric root modes: |deviation| <= 1e-5 relative (numeric_eps 1e-10) resp. 5e-2 (numeric_eps 1e-3) for n <= N, flagged rounded",
    "a crash of an option path is a refusal (tallied per option), not a violation",
]

SEEDS = [
    "x = 1\ny = 1\nwhile true:\n    x, y = y, x + y\nend\n",
    "x = 1\ny = 0\nwhile true:\n    x, y = -y, x\nend\n",
    "x = 1\ny = 0\nz = 0\nwhile true:\n    x, y, z = y, z, x + y\nend\n",
    "x = 0\nc = 0\nwhile true:\n    c = 0 {1/4} 1 {1/4} 2\n    if c == 2:\n        x = x + 1 {1/2} x - 1\n    elif c == 1:\n        x = 2*x\n    end\nend\n",
    "c = 1\nx = 0\nwhile c == 1:\n    c = Bernoulli(1/2)\n    if c == 1:\n        g = Normal(0, 1)\n    else:\n        g = Uniform(0, 1)\n    end\n    x = x + g\nend\n",
    "x = 0\ny = 0\nwhile true:\n    x = x + 1 {1/2} x + 2\n    y = y + x {1/3} y\nend\n",
]


SEEDS_FLAG = [
    "u = 0\nv = 0\nx = 1\ny = 1\nwhile true:\n    u = Normal(0, 1)\n    v = Normal(0, 2)\n    x, y = x/2 + u*y, y/2 + v*x\nend\n",
]


def rule(tier):
    return ("programs (seeds with cyclic / irrational / complex systems, categorical and conditioned-draw programs, + a slice of the "
            "grammar) x option combinations; non-trivial = (program, configuration) that succeeds with a non-constant expected sequence")


def bounds(tier):
    return {"depth_N": 4, "configurations": len(configs(tier))}


def configs(tier):
    out = []
    for c2a, tc, fc in itertools.product([False, True], repeat=3):
        out.append({"settings": {"cond2arithm": c2a, "transform_categoricals": tc}, "force_cyclic": fc, "types": "inferred"})
    out.append({"settings": {}, "force_cyclic": False, "types": "declared"})
    out.append({"settings": {"disable_type_inference": True}, "force_cyclic": False, "types": "declared"})
    out.append({"settings": {"numeric_roots": True}, "force_cyclic": True, "types": "inferred", "tol": 1e-5})
    out.append({"settings": {"numeric_croots": True}, "force_cyclic": True, "types": "inferred", "tol": 1e-5})
    out.append({"settings": {"numeric_roots": True, "numeric_eps": 1e-3}, "force_cyclic": True, "types": "inferred", "tol": 5e-2})
    if tier != "quick":
        out.append({"settings": {"numeric_roots": True, "cond2arithm": True}, "force_cyclic": False, "types": "inferred", "tol": 1e-5})
        out.append({"settings": {"type_fp_iterations": 1}, "force_cyclic": False, "types": "inferred"})
    return out


def with_declared_types(text):
    """Add a `types` block declaring every syntactically finite variable with the value set the model reaches."""
    from ..refparser import parse_program
    from .c18 import syntactic_finite
    from ..poly import Poly

    if text.startswith("types"):
        return None
    from ..pool import cpu_limit, CpuTimeout

    try:
        with cpu_limit(10):
            prog = parse_program(text)
            fin = syntactic_finite(prog)
            if not fin:
                return None
            m = build_model(text, max_states=5000)
            m.run(6)
    except (NotApplicable, CapHit, CpuTimeout, Exception):
        return None
    decl = {}
    for v in fin:
        vals = set(m.reach.get(v, ()))
        if not vals or not all(x.is_const() for x in vals) or len(vals) > 8:
            continue
        decl[v] = sorted(x.const_value() for x in vals)
    if not decl:
        return None
    lines = ["types"]
    for v, vals in sorted(decl.items()):
        lines.append("    %s : Finite(%s)" % (v, ", ".join(Poly.const(x).to_text() for x in vals)))
    lines.append("end")
    return "\n".join(lines) + "\n" + text


def cases(tier, seed):
    seed_set = set(SEEDS) | set(gen.SEEDS)
    progs = list(SEEDS) + list(SEEDS_FLAG)
    base = [t for t in base_programs(tier) if "p" not in re.findall(r"[a-z]+", t)]
    step = 3 if tier == "quick" else 1
    progs += [t for i, t in enumerate(base) if i % step == 0 or t in seed_set]
    out = []
    sliced = set(progs)
    for text in base:
        # the declared-types configurations (where conditions over untyped auxiliaries are abstracted as coins) run on
        # every program of the grammar that has a condition, not only on the slice
        if text in sliced or not ("if" in text or "while true" not in text):
            continue
        goals = gen.goals_for(text, 2, 3)
        for cfg in configs(tier):
            if cfg["types"] == "declared":
                out.append({"input": {"text": text, "config": cfg, "goals": goals}, "N": 4})
    for text in base:
        # transform_categoricals on every program with at least two probabilistic choices (generated draw variables `_cK` next
        # to one another and next to aliases of user variables), not only on the slice
        if text in sliced or text.count("{") < 3:
            continue
        goals = gen.goals_for(text, 2, 3)
        for cfg in configs(tier):
            if cfg["settings"].get("transform_categoricals") and cfg["types"] != "declared" and not cfg["force_cyclic"] \
                    and len([k for k, v in cfg["settings"].items() if v]) == 1:
                out.append({"input": {"text": text, "config": cfg, "goals": goals}, "N": 4})
    for text in progs:
        goals = gen.goals_for(text, 2, 3 if (tier == "quick" and text not in seed_set) else 5)
        for ci, cfg in enumerate(configs(tier)):
            if cfg["settings"].get("transform_categoricals") and "{" not in text:
                continue
            if cfg["settings"].get("cond2arithm") and "if" not in text and "while true" in text:
                continue
            out.append({"input": {"text": text, "config": cfg, "goals": goals}, "N": 4})
    return out


def _central_flag_check(text, goals, N, cfg, res):
    import sympy
    from fractions import Fraction
    from .. import polar
    from ..pool import cpu_limit, CpuTimeout, tainted
    from ..poly import parse_poly, Poly
    from cli.actions.goals_action import GoalsAction
    from inputparser import GoalParser
    from recurrences import RecBuilder

    if tainted():
        return
    singles = [g for g in goals if parse_poly(g).degree() == 1][:2]
    if not singles:
        return
    model = build_model(text)
    model.run(N)
    polar.reset_settings(**cfg["settings"])
    try:
        with cpu_limit(40):
            program = polar.normalize(polar.parse(text))
            args = polar.cli_defaults()
            ga = GoalsAction(args)
            ga.initialize_program(program, RecBuilder(program))
            for g in singles:
                gt, gd = GoalParser.parse("c2(%s)" % g)
                sol, exact = ga.handle_central_moment_goal(gd)
                res["stats"]["central_flag_checks"] = res["stats"].get("central_flag_checks", 0) + 1
                if not exact:
                    continue
                sol = sympy.sympify(sol)
                if any(str(sy).startswith("_prob") for sy in sol.free_symbols):
                    continue  # expressed through the probability of an abstracted condition: judged by C01 / C02
                gp = parse_poly(g)
                for n in range(N + 1):
                    m1 = model.moment(gp, n)
                    m2 = model.moment(gp * gp, n)
                    if not (m1.is_const() and m2.is_const()):
                        break
                    want = m2.const_value() - m1.const_value() ** 2
                    verdict, how, txt = polar.compare_value(polar.at_n(sol, n), Poly.const(want), digits=25)
                    if verdict == "neq":
                        res["violations"].append({"sub": "c2(%s) flagged exact" % g, "detail": {
                            "program": text, "settings": cfg["settings"], "n": n, "true": str(want), "reported": txt[:80],
                            "problem": "a central moment computed under a numeric root option deviates from the exact value but is "
                                       "reported as exact"}})
                        res["status"] = "violation"
                        break
    except CpuTimeout:
        pass
    finally:
        polar.reset_settings()


def run_case(case):
    inp = case["input"]
    cfg = inp["config"]
    text = inp["text"]
    if cfg["types"] == "declared":
        t2 = with_declared_types(text)
        if t2 is None:
            return {"status": "na", "stats": {}, "violations": []}
        text = t2
    res = analyse_program_goals(text, inp["goals"], case["N"], settings=cfg["settings"], force_cyclic=cfg["force_cyclic"],
                                rounded_tol=cfg.get("tol", 1e-5))
    # goals built from several raw moments (central moments) under the numeric root options: a value that is flagged exact
    # must be exact - the flag has to account for EVERY raw moment that went into it
    if (cfg["settings"].get("numeric_roots") or cfg["settings"].get("numeric_croots")) and res.get("status") in ("ok", "violation"):
        try:
            _central_flag_check(text, inp["goals"], case["N"], cfg, res)
        except Exception:
            pass
    # tally refusals per option for the evidence
    if res["stats"].get("refusals"):
        key = ",".join(sorted(k for k, v in cfg["settings"].items() if v)) or "default"
        res["stats"]["refusals"] = {"%s|%s" % (key, k): v for k, v in res["stats"]["refusals"].items()}
    return res
