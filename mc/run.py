"""Check runner:  python -m mc.run <ID> [--tier quick|thorough] [--replay FILE]

Contract (MANIFEST): exit 0 = property held on everything explored (KNOWN-FINDING lines allowed);
exit 1 + `VIOLATION property=<id> replay=<path>` otherwise.  Rewrites evidence/<ID>.json.
"""
import argparse
import hashlib
import importlib
import json
import os
import subprocess
import sys
import time

ROOT = os.path.dirname(os.path.dirname(os.path.abspath(__file__)))
EVID = os.path.join(ROOT, "evidence")
REPL = os.path.join(ROOT, "replays")
KNOWN = os.path.join(ROOT, "known_findings.json")
MAX_REPORT = 20


def finding_key(check_id, case, sub):
    blob = json.dumps({"id": check_id, "input": case.get("input"), "sub": sub}, sort_keys=True)
    return hashlib.sha256(blob.encode()).hexdigest()


def load_known():
    try:
        with open(KNOWN) as f:
            data = json.load(f)
    except FileNotFoundError:
        return {}
    out = {}
    for e in data.get("findings", []):
        if e.get("status") == "known":
            # a finding is identified either by the exact failing input (key) or by its call site (property + sub label
            # that the check only emits after classifying the failure as coming from exactly that call site)
            if "key" in e:
                out[e["key"]] = e
            else:
                for prop in [e["property"]] + list(e.get("also", [])):
                    out[("site", prop, e["sub"])] = e
    return out


def worker_task(task):
    check_id, case = task
    mod = importlib.import_module("mc.checks." + check_id.lower())
    t0 = time.process_time()
    res = mod.run_case(case)
    if isinstance(res, dict):
        res.setdefault("cpu_s", round(time.process_time() - t0, 2))
    return res


def worker_init():
    from . import polar

    polar.init_worker()


def merge_stats(acc, st):
    for k, v in st.items():
        if isinstance(v, dict):
            d = acc.setdefault(k, {})
            for kk, vv in v.items():
                d[kk] = d.get(kk, 0) + vv
        elif isinstance(v, (int, float)):
            acc[k] = acc.get(k, 0) + v


def replay(check_id, path, quiet=False):
    with open(path) as f:
        rep = json.load(f)
    worker_init()
    mod = importlib.import_module("mc.checks." + check_id.lower())
    if rep.get("history"):
        # a violation that needs the cases its worker process had analysed before (a result depending on process history):
        # they are re-run first, in order, in this one fresh process; their own results are not judged here
        from .pool import CpuTimeout, tainted

        for prev in rep["history"]:
            try:
                mod.run_case(prev)
            except CpuTimeout:
                pass
            except Exception:
                pass
        if tainted():
            if not quiet:
                print("replay: a CPU limit was hit while re-running the history; nothing is judged")
            return 0
    res = mod.run_case(rep["case"])
    subs = {v["sub"] for v in res.get("violations", [])}
    want = rep.get("sub")
    hit = (want in subs) if want is not None else bool(subs)
    if not quiet:
        for v in res.get("violations", []):
            print(json.dumps(v, indent=1, default=str))
    if hit:
        print("VIOLATION property=%s replay=%s" % (check_id, path))
        return 1
    if not quiet:
        print("replay: no violation (status=%s)" % res.get("status"))
    return 0


def confirm_fresh(check_id, path, times=2):
    """Re-run the case in a fresh interpreter; it must fail every time."""
    for _ in range(times):
        env = dict(os.environ)
        env["PYTHONHASHSEED"] = "0"
        env["PYTHONDONTWRITEBYTECODE"] = "1"
        try:
            r = subprocess.run([sys.executable, "-m", "mc.run", check_id, "--replay", path, "--quiet"],
                               cwd=ROOT, env=env, capture_output=True, text=True, timeout=900)
        except subprocess.TimeoutExpired:
            return False
        if r.returncode != 1 or "VIOLATION" not in r.stdout:
            return False
    return True


def validate_evidence(path):
    schema = "/root/.vp/EVIDENCE.schema.json"
    if not os.path.exists(schema):
        return None
    code = ("import json,sys,jsonschema;"
            "jsonschema.validate(json.load(open(sys.argv[1])), json.load(open(sys.argv[2])))")
    for py in ("python3-vt", "/opt/veriftools/pyvenv/bin/python"):
        try:
            r = subprocess.run([py, "-c", code, path, schema], capture_output=True, text=True, timeout=60)
        except Exception:
            continue
        if r.returncode == 0:
            return True
        sys.stderr.write("evidence does not validate: %s\n" % r.stderr[-500:])
        return False
    return None


def main(argv=None):
    ap = argparse.ArgumentParser()
    ap.add_argument("id")
    ap.add_argument("--tier", default=os.environ.get("VERIF_TIER", "quick"))
    ap.add_argument("--replay")
    ap.add_argument("--quiet", action="store_true")
    ap.add_argument("--limit", type=int, default=0, help="debug: only the first K cases")
    ap.add_argument("--list", action="store_true", help="debug: print the cases and exit")
    ap.add_argument("--dump", help="debug: write every case result to this file (jsonl)")
    args = ap.parse_args(argv)
    check_id = args.id.upper()
    tier = args.tier if args.tier in ("quick", "thorough") else "quick"
    os.environ["VERIF_TIER"] = tier
    try:
        seed = int(os.environ.get("VERIF_SEED", "0"))
    except ValueError:
        seed = 0
    os.environ.setdefault("PYTHONHASHSEED", "0")

    if args.replay:
        return replay(check_id, args.replay, args.quiet)

    mod = importlib.import_module("mc.checks." + check_id.lower())
    t0 = time.time()
    cases = mod.cases(tier, seed)
    if args.limit:
        cases = cases[: args.limit]
    if args.list:
        for c in cases:
            print(json.dumps(c, default=str))
        return 0
    budget = float(os.environ.get("VERIF_BUDGET_S", "0")) or getattr(mod, "BUDGET", {}).get(tier, 240 if tier == "quick" else 3600)
    if tier == "quick" and not os.environ.get("VERIF_BUDGET_S"):
        budget = max(budget, 480.0)  # the quick tiers take 15-130 s on idle cores; the cap only matters on a heavily loaded machine
    hard = getattr(mod, "HARD_TIMEOUT", {}).get(tier) if isinstance(getattr(mod, "HARD_TIMEOUT", None), dict) else None
    hard = hard or (150 if tier == "quick" else 400)

    from .pool import run_pool

    stats = {}
    samples = []
    viols = []
    counts = {"ok": 0, "violation": 0, "refusal": 0, "timeout": 0, "harness_error": 0, "crash": 0, "na": 0,
              "skipped_budget": 0}
    harness_errors = []
    hists = {}
    tasks = [(check_id, c) for c in cases]
    # budget: stop handing out new work when the wall-clock budget is used up (reported as a cap)
    done_idx = set()
    gen = run_pool(tasks, worker_task, init=worker_init, hard_timeout=hard,
                   recycle=getattr(mod, "RECYCLE", 40))
    dump = open(args.dump, "w") if args.dump else None
    try:
        for idx, res in gen:
            done_idx.add(idx)
            if dump:
                dump.write(json.dumps({"idx": idx, "input": cases[idx].get("input"), "res": res}, default=str) + "\n")
            st = res.get("status", "harness_error")
            counts[st] = counts.get(st, 0) + 1
            merge_stats(stats, res.get("stats", {}))
            if res.get("sample") is not None and len(samples) < 5:
                samples.append(res["sample"])
            for v in res.get("violations", []):
                viols.append((idx, v))
            if res.get("_hist") is not None:
                hists[idx] = res["_hist"]
            if st == "harness_error":
                harness_errors.append({"case": cases[idx].get("input"), "error": res.get("error"),
                                       "trace": res.get("trace")})
            if time.time() - t0 > budget:
                break
    finally:
        gen.close()
    counts["skipped_budget"] = len(cases) - len(done_idx)

    # ---- violations: known findings, fresh-process confirmation, replay files -------------------
    known = load_known()
    os.makedirs(REPL, exist_ok=True)
    reported = []
    known_hit = []
    unconfirmed = 0
    attempts = 0
    hist_attempts = 0
    viols.sort(key=lambda iv: iv[0])
    for idx, v in viols:
        case = cases[idx]
        key = finding_key(check_id, case, v["sub"])
        if ("site", check_id, v["sub"]) in known:
            key = ("site", check_id, v["sub"])
        if key in known:
            known_hit.append((key, known[key]))
            continue
        if len(reported) >= MAX_REPORT:
            continue
        path = os.path.join(REPL, "%s-%s.json" % (check_id, key[:12]))  # key is a hash here (site keys were handled above)
        with open(path, "w") as f:
            json.dump({"property": check_id, "key": key, "case": case, "sub": v["sub"], "detail": v.get("detail")},
                      f, indent=1, default=str)
        if getattr(mod, "CONFIRM_FRESH", True):
            if attempts >= MAX_REPORT + 10:
                unconfirmed += 1
                os.remove(path)
                continue
            attempts += 1
            if not confirm_fresh(check_id, path):
                # not reproducible from a fresh process on its own: try with the history of its worker process (the cases that
                # process had analysed before), shortest suffix first; reproduced twice in fresh processes = a real violation
                # of this property in that history
                hist = hists.get(idx) or []
                ok = False
                if hist and hist_attempts < 6:
                    hist_attempts += 1
                    lens = sorted({min(k, len(hist)) for k in (1, 2, 4, 8, 16, len(hist))})
                    for k in lens:
                        with open(path, "w") as f:
                            json.dump({"property": check_id, "key": key, "case": case, "sub": v["sub"], "detail": v.get("detail"),
                                       "history": [cases[j] for j in hist[-k:]],
                                       "note": "needs the listed history: the cases analysed before it in the same process"},
                                      f, indent=1, default=str)
                        if confirm_fresh(check_id, path):
                            ok = True
                            break
                if not ok:
                    unconfirmed += 1
                    os.replace(path, path + ".unconfirmed")
                    continue
        reported.append(path)
    n_new = sum(1 for idx, v in viols if finding_key(check_id, cases[idx], v["sub"]) not in known
                and ("site", check_id, v["sub"]) not in known)
    # cases whose violations are all listed known findings are counted separately from new violations
    by_case = {}
    for idx, v in viols:
        is_known = finding_key(check_id, cases[idx], v["sub"]) in known or ("site", check_id, v["sub"]) in known
        by_case.setdefault(idx, []).append(is_known)
    only_known = sum(1 for flags in by_case.values() if all(flags))
    counts["violation"] = counts.get("violation", 0) - only_known
    counts["known_finding"] = only_known

    # ---- evidence ----------------------------------------------------------------------------------
    level = mod.LEVEL
    cov = dict(stats)
    cov.setdefault("evaluations", counts["ok"] + counts["violation"] + counts["refusal"])
    cov["cases"] = len(cases)
    cov["case_status"] = counts
    cov["rule"] = mod.rule(tier) if callable(getattr(mod, "rule", None)) else str(getattr(mod, "RULE", ""))
    cov["samples"] = samples if samples else [c.get("input") for c in cases[:3]]
    cov["bounds"] = mod.bounds(tier) if callable(getattr(mod, "bounds", None)) else {}
    cov["exhaustive"] = counts["skipped_budget"] == 0 and not stats.get("caps_hit")
    cov["known_findings_hit"] = len(known_hit)
    cov["unconfirmed_in_fresh_process"] = unconfirmed
    cov["harness_errors"] = harness_errors[:5]
    if level == "model_checking":
        cov.setdefault("states", 0)
        cov.setdefault("transitions", 0)
        cov.setdefault("traces_validated_against_impl", 0)
    cov.setdefault("distinct_nontrivial", 0)
    ev = {
        "property_id": check_id,
        "tier": tier,
        "seed": seed,
        "level": level,
        "coverage": cov,
        "assumptions": list(getattr(mod, "ASSUMPTIONS", [])),
        "wall_s": round(time.time() - t0, 2),
        "violations": n_new - unconfirmed,
    }
    os.makedirs(EVID, exist_ok=True)
    epath = os.path.join(EVID, check_id + ".json")
    with open(epath, "w") as f:
        json.dump(ev, f, indent=1, default=str)
    validate_evidence(epath)

    # ---- report ------------------------------------------------------------------------------------
    seen_k = set()
    for key, e in known_hit:
        if key in seen_k:
            continue
        seen_k.add(key)
        print("KNOWN-FINDING: property=%s %s" % (check_id, e.get("what", str(key)[:40])))
    print("%s %s: cases=%d %s states=%s transitions=%s evaluations=%s wall=%.1fs" % (
        check_id, tier, len(cases), json.dumps(counts), cov.get("states"), cov.get("transitions"),
        cov.get("evaluations"), time.time() - t0))
    if harness_errors:
        print("note: %d harness errors (first: %s)" % (len(harness_errors), harness_errors[0]["error"]))
    if reported:
        for p in reported:
            print("VIOLATION property=%s replay=%s" % (check_id, p))
        return 1
    return 0


if __name__ == "__main__":
    sys.exit(main())
