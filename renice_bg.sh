#!/bin/bash
# lower the priority of background thorough runs (children are re-spawned, so call periodically)
for p in $(pgrep -f "tier thorough"); do renice -n 15 -p $p >/dev/null 2>&1; for c in $(pgrep -P $p); do renice -n 15 -p $c >/dev/null 2>&1; done; done
