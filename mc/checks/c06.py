"""C06 — every reported polynomial invariant vanishes on the goal sequences.

(a) exhaustive over all 1-, 2- (and 3-) tuples of a menu of closed forms: every polynomial of the
    basis returned by InvariantIdeal(...).compute_basis() is evaluated on the sequences at n = 0..12
    with independent exact evaluators (integers / Fractions / Fibonacci and Lucas recurrences);
(b) end-to-end through GoalsAction.handle_all_goals with --invariants on a family of loops: the goal
    sequences come from the reference model (mc.model), not from Polar's formulas.
"""
from .. import invcheck

ID = "C06"
LEVEL = "exploration"
BUDGET = {"quick": 200, "thorough": 3300}
ASSUMPTIONS = ["menu sequences evaluated by hand-written exact evaluators; sympy only substitutes and expands",
               "end-to-end part: sequences from the reference model for n = special cases .. +10"]


def rule(tier):
    return ("all singles and pairs%s over a menu of %d closed forms (polynomial, exponential with bases sharing prime factors, "
            "negative bases, n*2^n, sums, Lucas/Fibonacci) + loops end-to-end; non-trivial = tuple for which Polar reports a "
            "non-empty basis") % (" and all triples over the first 17" if tier != "quick" else " and all triples over the first 13", len(invcheck.MENU))


def bounds(tier):
    return {"n_range": "0..12"}


def cases(tier, seed):
    out = [{"input": {"kind": "tuple", "idx": t, "counter": c}} for t in invcheck.tuples(tier)
           for c in ((0,) if len(t) == 1 else (0, 9, 8, 99) if len(t) == 2 else (0, 8) if len(t) == 3 else (0, 7))]
    from ..invloops import loop_cases

    out += loop_cases(tier)
    return out


def run_case(case):
    if case["input"]["kind"] == "tuple":
        return invcheck.check_tuple(case["input"]["idx"], "sound", 0, case["input"].get("counter", 0))
    from ..invloops import check_loop

    return check_loop(case["input"], "sound")
