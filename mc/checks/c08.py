"""C08 — built-in distributions report their true moments, support and transforms.

Exhaustive over a grid: 10 families x admissible parameter tuples (integers, fractions, float
literals) x orders k = 0..K x a t-grid.  Oracles are written from the textbook definitions
(mc.dists): closed-form rational moments, cross-checked against 50-digit quadrature / finite sums;
cf / mgf against numeric integrals of e^{itx}, e^{tx}; Taylor coefficients of mgf and cf at 0 by
Cauchy integrals on a small circle (so removable singularities at 0 do not matter) against the
moments; mgf_exists_at against the true domain.  Location/scale rewriting (DistTransformer): the
rewritten (fixed draw, affine map) pair must have the moments of the original draw for every value
of the parameter variable on a grid.   This is an input-grid enumeration (no transitions).
"""
import itertools
from fractions import Fraction as F
from math import comb, factorial

from ..pool import cpu_limit, CpuTimeout
from ..common import exc_name, THOROUGH
from .. import dists

ID = "C08"
LEVEL = "exploration"
BUDGET = {"quick": 220, "thorough": 3300}
ASSUMPTIONS = [
    "oracle densities / mass functions typed in from the definitions (mc.dists); mpmath quadrature at 50 digits",
    "Bernoulli.get_moment(0) is not judged (k = 0 is never requested by DistAssignment.get_moment for a drawn variable: "
    "powers 0 are not passed); all other families are judged at k = 0 as well",
    "TruncNormal moments are documented as float-rounded: tolerance 1e-9 relative; everything else 1e-25 or exact",
]

DISC_GRID = {
    "Bernoulli": [["1/2"], ["1/3"], ["0.25"], ["1"], ["0"]],
    "DiscreteUniform": [["0", "2"], ["1", "6"], ["-2", "1"], ["3", "3"]],
    "Categorical": [["1/4", "1/4", "1/2"], ["1/2", "1/2"], ["0.1", "0.2", "0.3", "0.4"], ["1"], ["0", "1/3", "2/3"]],
}
T_GRID = ["-2", "-1", "-1/2", "1/2", "1", "3"]


def rule(tier):
    return ("10 families x parameter grid x k = 0..%d x t in %s x checks {moment, support, discreteness, cf, mgf, existence, Taylor "
            "coefficients}; DistTransformer: 4 families x parameter expressions x values; non-trivial = every (family, parameters) case") % (
        6 if tier == "quick" else 8, T_GRID)


def bounds(tier):
    return {"k_max": 6 if tier == "quick" else 8, "t_grid": T_GRID}


def cases(tier, seed):
    out = []
    K = 6 if tier == "quick" else 8
    for fam in dists.CONT:
        for ps in dists.GRID_QUICK[fam] + (dists.GRID_MORE[fam] if tier != "quick" else []):
            out.append({"input": {"kind": "dist", "family": fam, "params": ps}, "K": K})
    for fam, grid in DISC_GRID.items():
        for ps in grid:
            out.append({"input": {"kind": "dist", "family": fam, "params": ps}, "K": K})
    # two parameterisations of one family that differ in a single parameter, evaluated in ONE process in both orders
    # (moment caches must be keyed on all parameters)
    for fam, a, b in [("Beta", ["2", "3"], ["2", "3", "10"]), ("Beta", ["2", "3", "4"], ["2", "5", "4"]), ("Normal", ["0", "1"], ["0", "4"]),
                      ("Normal", ["1", "1"], ["2", "1"]), ("Uniform", ["0", "1"], ["0", "2"]), ("Laplace", ["0", "1"], ["0", "2"]),
                      ("Laplace", ["0", "1"], ["1", "1"]), ("DistExp", ["1"], ["2"]), ("Gamma", ["2", "1"], ["2", "3"]),
                      ("Gamma", ["2", "1"], ["3", "1"]), ("DiscreteUniform", ["0", "2"], ["0", "3"]), ("DiscreteUniform", ["0", "2"], ["1", "2"]),
                      ("Categorical", ["1/2", "1/2"], ["1/4", "3/4"]), ("Bernoulli", ["1/2"], ["1/3"]),
                      ("TruncNormal", ["0", "1", "-1", "1"], ["0", "1", "-1", "2"])]:
        out.append({"input": {"kind": "cachepair", "family": fam, "a": a, "b": b}, "K": 4})
    # location / scale rewriting
    for fam, exprs in {"Normal": [["v", "1"], ["2*v + 1", "4"], ["v", "2"], ["0", "v"], ["v", "v"],
                                  # variances that are not a single atom: fractions, products, sums, powers
                                  ["v", "3/4"], ["v", "0.75"], ["v", "16/3"], ["v", "2*v"], ["v", "v + 1"], ["v", "v**2"],
                                  ["v - 1", "3*v/2"], ["0", "v/2"], ["-v", "5/2"]],
                       "Uniform": [["v", "v + 1"], ["0", "v"], ["-v", "2*v"], ["v/2", "3*v/2"], ["v - 1", "v + 3/4"], ["-3/4", "v"]],
                       "Laplace": [["v", "1"], ["1 - v", "2"], ["v", "3/4"], ["v", "2*v"], ["0", "v + 1"], ["v/2", "v/3"]],
                       "DistExp": [["1/v"], ["2/v"], ["1/(2*v)"], ["3/(4*v)"], ["v"], ["2*v"], ["v + 1"], ["3*v/4"]]}.items():
        for ex in exprs:
            out.append({"input": {"kind": "transform", "family": fam, "params": ex}, "K": 6})
    return out


def to_mp(x):
    import mpmath as mp
    import sympy

    return mp.mpmathify(sympy.N(sympy.sympify(str(x)), 50))


def run_cachepair(case):
    import mpmath as mp
    from program.distribution import distribution_factory

    mp.mp.dps = 50
    inp = case["input"]
    fam = inp["family"]
    stats = {"evaluations": 0, "refusals": {}, "distinct_nontrivial": 1}
    res = {"status": "ok", "stats": stats, "violations": [], "sample": dict(inp)}
    for order in ((inp["a"], inp["b"], inp["a"]), (inp["b"], inp["a"], inp["b"])):
        for ps in order:
            try:
                dist = distribution_factory(fam, list(ps))
            except Exception as e:
                stats["refusals"]["construct:" + exc_name(e)] = 1
                continue
            psf = [F(p) for p in ps]
            for k in range(1, case["K"] + 1):
                try:
                    got = dist.get_moment(k)
                except Exception as e:
                    stats["refusals"]["moment:" + exc_name(e)] = 1
                    continue
                want = dists.exact_moment(fam, psf, k)
                wv = (mp.mpf(want.numerator) / want.denominator) if want is not None else dists.numeric_expect(fam, psf, lambda x: x ** k)
                stats["evaluations"] += 1
                tol = mp.mpf("1e-9") if fam == "TruncNormal" else mp.mpf("1e-25")
                if abs(to_mp(got) - wv) > tol * max(1, abs(wv)):
                    res["violations"].append({"sub": "moment-after-other-parameters",
                                              "detail": {"family": fam, "params": ps, "evaluated_after": [x for x in order], "k": k,
                                                         "polar": str(got), "true": mp.nstr(wv, 20)}})
                    break
            if res["violations"]:
                break
        if res["violations"]:
            break
    if res["violations"]:
        res["status"] = "violation"
    return res


def run_case(case):
    if case["input"]["kind"] == "transform":
        return run_transform(case)
    if case["input"]["kind"] == "cachepair":
        return run_cachepair(case)
    import mpmath as mp
    import sympy
    from program.distribution import distribution_factory

    mp.mp.dps = 50
    fam, ps, K = case["input"]["family"], case["input"]["params"], case["K"]
    stats = {"evaluations": 0, "refusals": {}, "distinct_nontrivial": 1}
    res = {"status": "ok", "stats": stats, "violations": []}

    def bad(sub, **d):
        res["violations"].append({"sub": sub, "detail": dict(d, family=fam, params=ps)})

    try:
        dist = distribution_factory(fam, list(ps))
    except Exception as e:
        stats["refusals"]["construct:" + exc_name(e)] = 1
        res["status"] = "refusal"
        return res
    psf = [F(p) for p in ps]
    # ---- moments ---------------------------------------------------------------------------------
    for k in range(0, K + 1):
        try:
            with cpu_limit(30):
                got = dist.get_moment(k)
        except CpuTimeout:
            stats["refusals"]["timeout@moment"] = 1
            break
        except Exception as e:
            kk = "moment:" + exc_name(e)
            stats["refusals"][kk] = stats["refusals"].get(kk, 0) + 1
            continue
        stats["evaluations"] += 1
        if fam == "Bernoulli" and k == 0:
            continue
        want = dists.exact_moment(fam, psf, k)
        num = dists.numeric_expect(fam, psf, lambda x: x ** k)
        if want is not None:
            # two independent opinions must agree before judging Polar
            if abs(num - mp.mpf(want.numerator) / want.denominator) > mp.mpf("1e-25") * max(1, abs(num)):
                stats["oracle_disagreement"] = stats.get("oracle_disagreement", 0) + 1
                continue
            try:
                g = sympy.Rational(str(got)) if sympy.sympify(str(got)).is_Rational else None
            except Exception:
                g = None
            gv = to_mp(got)
            if g is not None:
                if F(int(g.p), int(g.q)) != want:
                    bad("moment", k=k, polar=str(got), true=str(want))
            elif abs(gv - num) > mp.mpf("1e-25") * max(1, abs(num)):
                bad("moment", k=k, polar=str(got), true=str(want))
        else:
            gv = to_mp(got)
            if abs(gv - num) > mp.mpf("1e-9") * max(1, abs(num)):
                bad("moment", k=k, polar=str(got), true=mp.nstr(num, 20))
    # ---- support, discreteness -----------------------------------------------------------------------
    try:
        sup = dist.get_support()
        true_sup = dists.support(fam, psf)
        stats["evaluations"] += 1
        if fam in dists.DISC:
            if dist.is_discrete() is not True:
                bad("is_discrete", polar=str(dist.is_discrete()))
            vals = set()
            for s in sup:
                if isinstance(s, tuple):
                    continue
                vals.add(F(str(s)))
            for v in true_sup:
                if v not in vals and not any(isinstance(s, tuple) and F(str(s[0])) <= v <= F(str(s[1])) for s in sup):
                    bad("support", polar=str(sup), missing=str(v))
        else:
            if dist.is_discrete() is not False:
                bad("is_discrete", polar=str(dist.is_discrete()))
            lo, hi = true_sup

            def ext(x):
                sx = str(x)
                if sx in ("oo", "+oo"):
                    return mp.inf
                if sx == "-oo":
                    return -mp.inf
                return to_mp(x)

            covered = any(isinstance(s, tuple) and ext(s[0]) <= lo and hi <= ext(s[1]) for s in sup)
            if not covered:
                bad("support", polar=str(sup), true=[str(lo), str(hi)])
    except Exception as e:
        stats["refusals"]["support:" + exc_name(e)] = 1
    # ---- transforms --------------------------------------------------------------------------------------
    t = sympy.Symbol("t")
    radius = {"DistExp": lambda: psf[0], "Gamma": lambda: 1 / psf[1], "Laplace": lambda: 1 / psf[1]}.get(fam, lambda: None)()
    for name in ("cf", "mgf"):
        try:
            with cpu_limit(40):
                expr = getattr(dist, name)(t)
                f = sympy.lambdify(t, expr, "mpmath")
        except NotImplementedError:
            stats["not_implemented:" + name] = 1
            continue
        except CpuTimeout:
            stats["refusals"]["timeout@" + name] = 1
            continue
        except Exception as e:
            stats["refusals"][name + ":" + exc_name(e)] = 1
            continue
        for tv in T_GRID:
            tf = F(tv)
            tm = mp.mpf(tf.numerator) / tf.denominator
            if name == "mgf":
                exists_true = radius is None or (abs(tf) < radius if fam == "Laplace" else tf < radius)
                try:
                    ex = bool(dist.mgf_exists_at(sympy.Rational(tf.numerator, tf.denominator)))
                    stats["evaluations"] += 1
                    if ex != exists_true:
                        bad("mgf_exists_at", t=tv, polar=ex, true=exists_true)
                except Exception as e:
                    stats["refusals"]["exists:" + exc_name(e)] = 1
                if not exists_true:
                    continue
                want = dists.numeric_expect(fam, psf, lambda x: mp.exp(tm * x))
            else:
                want = dists.numeric_expect(fam, psf, lambda x: mp.exp(1j * tm * x))
            try:
                with cpu_limit(40):
                    got = f(tm)
            except CpuTimeout:
                stats["refusals"]["timeout@eval " + name] = 1
                break
            except Exception as e:
                kk = name + "-eval:" + exc_name(e)
                stats["refusals"][kk] = stats["refusals"].get(kk, 0) + 1
                continue
            stats["evaluations"] += 1
            # the oracle's oscillatory quadrature of e^{itx} on an unbounded support is good to ~1e-13 only
            tol = mp.mpf("1e-9") if fam == "TruncNormal" else (mp.mpf("1e-11") if name == "cf" else mp.mpf("1e-18"))
            if abs(got - want) > tol * max(1, abs(want)):
                bad(name, t=tv, polar=mp.nstr(got, 20), true=mp.nstr(want, 20))
        # Taylor coefficients at 0 by Cauchy integrals
        r = mp.mpf("0.3")
        if radius is not None:
            r = min(r, mp.mpf(radius.numerator) / radius.denominator * mp.mpf("0.4"))
        try:
            with cpu_limit(60):
                for k in range(0, min(K, 4) + 1):
                    if fam == "Bernoulli" and k == 0:
                        pass
                    integrand = lambda th: f(r * mp.exp(1j * th)) * mp.exp(-1j * k * th)
                    coeff = mp.quad(integrand, [0, mp.pi / 2, mp.pi, 3 * mp.pi / 2, 2 * mp.pi]) / (2 * mp.pi * r ** k)
                    mom = dists.exact_moment(fam, psf, k)
                    momv = (mp.mpf(mom.numerator) / mom.denominator) if mom is not None else dists.numeric_expect(fam, psf, lambda x: x ** k)
                    want = momv / factorial(k) * ((1j) ** k if name == "cf" else 1)
                    stats["evaluations"] += 1
                    tol = mp.mpf("1e-8") if fam == "TruncNormal" else mp.mpf("1e-15")
                    if abs(coeff - want) > tol * max(1, abs(want)):
                        bad(name + "-taylor", k=k, polar_coefficient=mp.nstr(coeff, 20), expected=mp.nstr(want, 20))
                        break
        except CpuTimeout:
            stats["refusals"]["timeout@taylor " + name] = 1
        except Exception as e:
            kk = name + "-taylor:" + exc_name(e)
            stats["refusals"][kk] = stats["refusals"].get(kk, 0) + 1
    res["sample"] = {"family": fam, "params": ps, "moments_checked": K + 1}
    if res["violations"]:
        res["status"] = "violation"
    return res


def run_transform(case):
    """DistTransformer: the rewritten pair has the moments of the original draw, for each value of v."""
    import mpmath as mp
    import sympy
    from program.distribution import distribution_factory
    from program.assignment import DistAssignment, PolyAssignment
    from program.transformer import DistTransformer

    mp.mp.dps = 50
    fam, ex, K = case["input"]["family"], case["input"]["params"], case["K"]
    stats = {"evaluations": 0, "refusals": {}, "distinct_nontrivial": 1}
    res = {"status": "ok", "stats": stats, "violations": []}
    try:
        da = DistAssignment("x", distribution_factory(fam, list(ex)))
        out = DistTransformer().transform(da)
    except Exception as e:
        stats["refusals"][exc_name(e)] = 1
        res["status"] = "refusal"
        return res
    if not isinstance(out, tuple):
        res["sample"] = {"family": fam, "params": ex, "rewritten": "unchanged"}
        return res
    new_draw, new_assign = out
    res["sample"] = {"family": fam, "params": ex, "rewritten": [str(new_draw), str(new_assign)]}
    dname = {"Exponential": "DistExp"}.get(type(new_draw.distribution).__name__, type(new_draw.distribution).__name__)
    for vv in ("1/2", "1", "2", "3"):
        v = F(vv)
        # original parameters at v
        try:
            ps = [F(str(sympy.nsimplify(sympy.sympify(e).subs(sympy.Symbol("v"), sympy.Rational(v.numerator, v.denominator))))) for e in ex]
        except Exception:
            continue
        if fam == "Normal" and ps[1] <= 0:
            continue
        if fam == "Uniform" and ps[1] <= ps[0]:
            continue
        dist = new_draw.distribution
        dparams = {"Normal": ["mu", "sigma2"], "Uniform": ["a", "b"], "Laplace": ["mu", "b"], "DistExp": ["lamb"]}[dname]
        # the rewritten draw may keep parameters that depend on v (Laplace keeps its scale): evaluate them at v too
        newps = [F(str(sympy.nsimplify(sympy.sympify(str(getattr(dist, a))).subs(sympy.Symbol("v"), sympy.Rational(v.numerator, v.denominator)))))
                 for a in dparams]
        poly = sympy.sympify(str(new_assign.polynomials[0])).subs(sympy.Symbol("v"), sympy.Rational(v.numerator, v.denominator))
        u = sympy.Symbol(str(new_draw.variable))
        a = poly.subs(u, 0)
        b = sympy.expand(poly - a).coeff(u, 1)
        if sympy.expand(poly - a - b * u) != 0:
            res["violations"].append({"sub": "transform", "detail": {"family": fam, "params": ex, "problem": "not affine in the fresh draw",
                                                                   "assignment": str(new_assign)}})
            break
        am, bm = mp.mpmathify(sympy.N(a, 50)), mp.mpmathify(sympy.N(b, 50))
        for k in range(1, K + 1):
            want = dists.exact_moment(fam, ps, k)
            tot = mp.mpf(0)
            for j in range(k + 1):
                mj = dists.exact_moment(dname, newps, j)
                tot += comb(k, j) * am ** (k - j) * bm ** j * (mp.mpf(mj.numerator) / mj.denominator)
            stats["evaluations"] += 1
            if abs(tot - mp.mpf(want.numerator) / want.denominator) > mp.mpf("1e-30") * max(1, abs(tot)):
                res["violations"].append({"sub": "transform", "detail": {"family": fam, "params": ex, "v": vv, "k": k,
                                                                       "rewritten": [str(new_draw), str(new_assign)],
                                                                       "moment_of_rewritten": mp.nstr(tot, 20), "true": str(want)}})
                break
        if res["violations"]:
            break
    if res["violations"]:
        res["status"] = "violation"
    return res
