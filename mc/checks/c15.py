"""C15 — Bayesian-network import and queries agree with the network's joint law.

Enumerated: small DAGs (single node, chain, fork, collider, 3-chain) x domain sizes x CPT rows from a
menu x ALL notation mixes {table, entries only, default + entries, table overridden by entries} x
names needing sanitising (incl. two names colliding after sanitising); negative variants (row sum
1 +- 0.01, missing row, duplicated entry, table of wrong length).
Oracle: brute-force joint law (product of CPT rows).  (1) the parsed CPTs equal the intended rows for every
notation; (2) the generated program, read through mc.irmodel and explored for one iteration, has exactly
the joint law, values numbered by domain position; (3) printed answers of --exact_inference and
--sample_time_until equal E(X^k | ev) and 1/P(ev) by enumeration; (4) malformed files raise.
"""
import contextlib
import io
import itertools
import os
import re
import shutil
import tempfile
from fractions import Fraction as F

from ..common import exc_name, THOROUGH
from ..pool import cpu_limit, CpuTimeout, tainted
from ..model import Model, NotApplicable, CapHit

ID = "C15"
LEVEL = "model_checking"
BUDGET = {"quick": 230, "thorough": 3300}
ASSUMPTIONS = [
    "`table` lists the probabilities with the variable's own value slowest and the parents in product order (the convention stated "
    "in the property's anchors); BIF numbers are decimal literals, compared exactly through Fractions, printed answers to 1e-9",
    "generated program interpreted through mc.irmodel after Polar's parser (one iteration = one joint sample)",
    "where a table and an entry give different rows for one parent combination the entry wins, whatever the statement order (the CPT "
    "assembly order `default, then table, then entries` named in the property's anchors); a default applies to unlisted rows only",
]

ROWS = {2: ["0.5, 0.5", "0.2, 0.8", "1.0, 0.0", "0.25, 0.75", "0.9, 0.1", "0.7, 0.3"],
        3: ["0.2, 0.3, 0.5", "0.1, 0.1, 0.8", "0.0, 0.5, 0.5", "0.25, 0.25, 0.5", "0.6, 0.3, 0.1", "0.3, 0.3, 0.4"]}
DOM = {2: ["yes", "no"], 3: ["lo", "mid", "hi"]}
# per-variable labelling: B lists the same labels in another order (a shared label sits at different positions in
# different domains); values are numbered by their position in the variable's OWN domain
DOMV = {"A": {2: ["yes", "no"], 3: ["lo", "mid", "hi"]}, "B": {2: ["no", "yes"], 3: ["hi", "lo", "mid"]},
        "C": {2: ["yes", "no"], 3: ["mid", "hi", "lo"]}, "D": {2: ["t", "f"], 3: ["lo", "mid", "hi"]},
        "E": {2: ["no", "yes"], 3: ["c", "b", "a"]}}
# a variable named X2 is a look-alike of X: same labels, same parents, same rows - only the name differs
DOMV["A2"] = DOMV["A"]
STRUCTS = {
    "single": {"A": []},
    "chain2": {"A": [], "B": ["A"]},
    "fork": {"A": [], "B": ["A"], "C": ["A"]},
    "collider": {"A": [], "B": [], "C": ["A", "B"]},
    "chain3": {"A": [], "B": ["A"], "C": ["B"]},
    "diamond": {"A": [], "B": ["A"], "C": ["A"], "D": ["B", "C"]},
    # look-alike roots: C hangs on one of them and on a node that is released later
    "twinroots": {"A": [], "A2": [], "D": [], "E": ["D"], "C": ["A2", "E"]},
    # look-alike sensors of one cause
    "twinsensors": {"D": [], "A": ["D"], "A2": ["D"], "E": ["A"], "C": ["A2", "E"]},
    "deep": {"A": [], "B": ["A"], "D": ["B"], "E": ["D"], "C": ["A", "E"]},
}
BIG = ("diamond", "twinroots", "twinsensors", "deep")
NOTATIONS = ["table", "entries", "default+entries", "table+override", "override+table", "entries+default"]
NAMESETS = [{"A": "A", "B": "B", "C": "C", "D": "D", "E": "E", "A2": "A2"},
            {"A": "A-b", "B": "X_1", "C": "Ab", "D": "D.1", "E": "e", "A2": "A_b"},
            {"A": "smoke", "B": "B-x", "C": "bx", "D": "zeta", "E": "alpha", "A2": "smoke2"}]


def rule(tier):
    return ("structures %s x domain sizes x notation mixes x name sets; queries: every target x power <= 2 x evidence sets of size 1-2, every "
            "sampling-time conjunction of size 1-2; negative variants; non-trivial = network with >= 2 variables") % sorted(STRUCTS)


def bounds(tier):
    return {"variables": "<= 3", "domain_sizes": [2, 3]}


def build_network(struct, sizes, offset=0):
    """-> dict var -> {"parents": [...], "size": k, "rows": {parent value index tuple: [Fractions]}}"""
    net = {}
    r = offset
    for v, ps in STRUCTS[struct].items():
        rows = {}
        for comb in itertools.product(*[range(sizes[p]) for p in ps]):
            rows[comb] = ROWS[sizes[v]][r % len(ROWS[sizes[v]])]
            r += 1
        net[v] = {"parents": ps, "size": sizes[v], "rows": rows}
    for v in net:
        if v.endswith("2"):
            net[v]["rows"] = dict(net[v[:-1]]["rows"])
    return net


def render_bif(net, notations, names, sizes, break_kind=None, order=None):
    out = ["network test {\n}"]
    keys = list(net)
    decl = [keys[i] for i in order] if order else keys
    for v in decl:
        out.append("variable %s {\n  type discrete [ %d ] { %s };\n}" % (names[v], sizes[v], ", ".join(DOMV[v][sizes[v]])))
    for vi, (v, info) in enumerate(net.items()):
        ps = info["parents"]
        head = names[v] + (" | " + ", ".join(names[p] for p in ps) if ps else "")
        body = []
        nota = notations[vi]
        combs = list(info["rows"].keys())
        rowtxt = {c: info["rows"][c] for c in combs}
        if break_kind == "sum_high" and vi == len(net) - 1:
            c0 = combs[-1]
            vals = [float(x) for x in rowtxt[c0].split(",")]
            vals[0] += 0.01
            rowtxt[c0] = ", ".join(repr(round(x, 4)) for x in vals)
        if break_kind == "sum_low" and vi == len(net) - 1:
            c0 = combs[0]
            vals = [float(x) for x in rowtxt[c0].split(",")]
            vals[-1] -= 0.01
            rowtxt[c0] = ", ".join(repr(round(x, 4)) for x in vals)

        def table_line(rows):
            flat = []
            for i in range(info["size"]):
                for c in combs:
                    flat.append(rows[c].split(",")[i].strip())
            return "  table %s;" % ", ".join(flat)

        def entry(c, txt):
            if not ps:
                return "  table %s;" % txt
            return "  (%s) %s;" % (", ".join(DOMV[p][sizes[p]][k] for p, k in zip(ps, c)), txt)

        if not ps or nota == "table":
            body.append(table_line(rowtxt))
            if break_kind == "table_short" and vi == len(net) - 1:
                body[-1] = body[-1].rsplit(",", 1)[0] + ";"
        elif nota == "entries":
            for c in combs:
                body.append(entry(c, rowtxt[c]))
            if break_kind == "missing" and vi == len(net) - 1:
                body.pop()
            if break_kind == "duplicate" and vi == len(net) - 1:
                body.append(body[0])
        elif nota == "default+entries":
            body.append("  default %s;" % rowtxt[combs[0]])
            for c in combs[1:]:
                if rowtxt[c] != rowtxt[combs[0]]:
                    body.append(entry(c, rowtxt[c]))
        elif nota == "entries+default":
            # the default statement written AFTER the entries it does not concern
            for c in combs[1:]:
                if rowtxt[c] != rowtxt[combs[0]]:
                    body.append(entry(c, rowtxt[c]))
            body.append("  default %s;" % rowtxt[combs[0]])
        elif nota == "override+table":
            # the overriding entry written BEFORE the table it overrides (CPT assembly is by kind, not by statement order)
            wrong = dict(rowtxt)
            wrong[combs[0]] = ROWS[info["size"]][-1] if rowtxt[combs[0]] != ROWS[info["size"]][-1] else ROWS[info["size"]][-2]
            body.append(entry(combs[0], rowtxt[combs[0]]))
            body.append(table_line(wrong))
        else:  # table overridden by entries: the table holds a shifted row for the first combination
            wrong = dict(rowtxt)
            wrong[combs[0]] = ROWS[info["size"]][-1] if rowtxt[combs[0]] != ROWS[info["size"]][-1] else ROWS[info["size"]][-2]
            body.append(table_line(wrong))
            body.append(entry(combs[0], rowtxt[combs[0]]))
        out.append((v, "probability ( %s ) {\n%s\n}" % (head, "\n".join(body))))
    blocks = dict(x for x in out if isinstance(x, tuple))
    out = [x for x in out if not isinstance(x, tuple)] + [blocks[v] for v in decl]
    return "\n".join(out) + "\n"


def joint(net, sizes):
    vs = list(net)
    law = {}
    for vals in itertools.product(*[range(sizes[v]) for v in vs]):
        env = dict(zip(vs, vals))
        p = F(1)
        for v in vs:
            row = net[v]["rows"][tuple(env[q] for q in net[v]["parents"])]
            p *= F(row.split(",")[env[v]].strip())
        if p:
            law[vals] = p
    return vs, law


def cases(tier, seed):
    out = []
    for sname, st in STRUCTS.items():
        vs = list(st)
        size_opts = [dict(zip(vs, s)) for s in itertools.product([2, 3], repeat=len(vs))]
        size_opts = [s for s in size_opts if all(s[v] == s[v[:-1]] for v in vs if v.endswith("2"))]
        if sname in BIG:
            # larger shapes: every declaration order of the variable / probability blocks from a small set, uniform notations
            so = [size_opts[0], size_opts[-1]] if tier == "quick" else size_opts[::3] + [size_opts[-1]]
            k = len(vs)
            orders = [list(range(k)), list(range(k - 1, -1, -1)), list(range(1, k)) + [0], [k - 1] + list(range(k - 1))]
            if tier != "quick":
                orders = [list(p) for p in itertools.permutations(range(k))][::(1 if k < 5 else 5)]
            for si, sizes in enumerate(so):
                for oi, order in enumerate(orders):
                    for ni, nt in enumerate(NOTATIONS):
                        if tier == "quick" and (oi + ni) % 2 and oi:
                            continue
                        out.append({"input": {"kind": "network", "struct": sname, "sizes": sizes, "notations": [nt] * k,
                                              "names": {v: NAMESETS[(oi + ni) % 3][v] for v in vs}, "offset": (oi + si) % 3, "order": order,
                                              "queries": oi == 0 and ni == 0}})
            continue
        if tier == "quick":
            size_opts = [s for i, s in enumerate(size_opts) if i in (0, len(size_opts) - 1) or (len(vs) == 2)]
        for sizes in size_opts:
            nots = list(itertools.product(NOTATIONS, repeat=len(vs)))
            if tier == "quick":
                nots = [n for n in nots if len(set(n)) == 1] + nots[1:6]
            for ni, nota in enumerate(nots):
                for nmi, names in enumerate(NAMESETS):
                    if nmi and (ni % 4 != 0) and tier == "quick":
                        continue
                    out.append({"input": {"kind": "network", "struct": sname, "sizes": sizes, "notations": list(nota),
                                          "names": {v: names[v] for v in vs}, "offset": (ni + nmi) % 3, "queries": ni < 4 and nmi == 0}})
            for bk in ("sum_high", "sum_low", "missing", "duplicate", "table_short"):
                nota = ["entries"] * len(vs) if bk in ("missing", "duplicate") else ["table"] * len(vs)
                if bk in ("missing", "duplicate") and not st[vs[-1]]:
                    continue
                out.append({"input": {"kind": "negative", "struct": sname, "sizes": sizes, "notations": nota,
                                      "names": {v: NAMESETS[0][v] for v in vs}, "offset": 0, "break": bk}})
    return out


def run_case(case):
    import random

    inp = case["input"]
    stats = {"evaluations": 0, "refusals": {}, "programs": 1}
    res = {"status": "ok", "stats": stats, "violations": []}
    from .. import polar, irmodel

    polar.reset_settings()
    random.seed(12345)
    sizes = inp["sizes"]
    net = build_network(inp["struct"], sizes, inp["offset"])
    names = inp["names"]
    text = render_bif(net, inp["notations"], names, sizes, inp.get("break"), inp.get("order"))
    tmp = tempfile.mkdtemp(prefix="c15_")
    try:
        path = os.path.join(tmp, "net.bif")
        with open(path, "w") as f:
            f.write(text)
        from bayesnet.parser import BifParser
        from bayesnet.code_generator import CodeGenerator

        if inp["kind"] == "negative":
            stats["evaluations"] += 1
            stats["distinct_nontrivial"] = 1
            try:
                BifParser().parse_file(path)
                res["violations"].append({"sub": "malformed-accepted", "detail": {"break": inp["break"], "bif": text}})
            except Exception:
                pass
            res["sample"] = {"bif": text, "break": inp["break"]}
            if res["violations"]:
                res["status"] = "violation"
            return res
        try:
            network = BifParser().parse_file(path)
        except Exception as e:
            res["violations"].append({"sub": "well-formed-rejected", "detail": {"error": "%s: %s" % (exc_name(e), str(e)[:200]), "bif": text}})
            res["status"] = "violation"
            return res
        # (1) parsed CPT rows
        for v, info in net.items():
            var = network.variables[names[v]]
            for comb, row in info["rows"].items():
                cond = tuple(DOMV[p][sizes[p]][k] for p, k in zip(info["parents"], comb))
                got = var.cpt.get(cond)
                want = tuple(float(x) for x in row.split(","))
                stats["evaluations"] += 1
                if got is None or tuple(got) != want:
                    res["violations"].append({"sub": "cpt-row", "detail": {"variable": names[v], "condition": cond, "parsed": str(got),
                                                                         "intended": str(want), "notations": inp["notations"], "bif": text}})
                    break
        # (2) generated program has the joint law
        vs, law = joint(net, sizes)
        cg = CodeGenerator(network, None)
        code = cg.generate_code()
        try:
            with cpu_limit(40):
                program = polar.parse(code)
                irp = irmodel.conv_program(program)
                m = Model(irp, max_states=5000)
                d1 = m.run(1)[1]
                pnames = [cg.polar_variable_names[names[v]] for v in vs]
                got = {}
                for st, pr in d1.values():
                    key = tuple(int(m.lookup(st, pn).const_value()) for pn in pnames)
                    got[key] = got.get(key, F(0)) + pr.const_value()
                stats["evaluations"] += 1
                stats["states"] = m.states_seen
                stats["transitions"] = m.transitions
                if got != law:
                    bad = [(k, str(law.get(k)), str(got.get(k))) for k in set(law) | set(got) if law.get(k) != got.get(k)][:3]
                    res["violations"].append({"sub": "generated-program-law", "detail": {"differences(value tuple, true, program)": bad,
                                                                                       "code": code, "bif": text}})
        except (NotApplicable, CapHit, CpuTimeout) as e:
            stats["refusals"]["model:" + type(e).__name__] = 1
        except Exception as e:
            stats["refusals"]["codegen:" + exc_name(e)] = 1
        if len(vs) >= 2:
            stats["distinct_nontrivial"] = 1
        res["sample"] = {"bif": text[:600], "notations": inp["notations"]}
        # (3) queries
        if inp.get("queries") and len(vs) >= 2 and not res["violations"]:
            run_queries(path, net, sizes, names, vs, law, stats, res)
    finally:
        shutil.rmtree(tmp, ignore_errors=True)
    if res["violations"]:
        res["status"] = "violation"
    return res


def run_queries(path, net, sizes, names, vs, law, stats, res):
    from .. import polar
    from cli.actions.bayesian_network_action import BayesNetworkAction
    import sympy

    def prob(ev):
        return sum(p for vals, p in law.items() if all(vals[vs.index(v)] == k for v, k in ev))

    evid_sets = []
    for v in vs:
        for k in range(sizes[v]):
            evid_sets.append([(v, k)])
    for (v1, v2) in itertools.combinations(vs, 2):
        evid_sets.append([(v1, 0), (v2, sizes[v2] - 1)])
    budget = 5 if not THOROUGH else 40
    done = 0
    for ev in evid_sets:
        pe = prob(ev)
        if pe == 0 or done >= budget or tainted():
            continue
        done += 1
        evtxt = ", ".join("%s = %s" % (names[v], DOMV[v][sizes[v]][k]) for v, k in ev)
        # sampling time
        args = polar.cli_defaults()
        args.sample_time_until = evtxt
        args.exact_inference = None
        args.bif_to_prob = None
        try:
            with cpu_limit(60):
                buf = io.StringIO()
                with contextlib.redirect_stdout(buf):
                    BayesNetworkAction(args)(path)
            m = re.search(r"The expected number of samples until .* is (.+) ≈", buf.getvalue())
            stats["evaluations"] += 1
            if m:
                val = sympy.sympify(m.group(1))
                want = 1 / pe
                if val.free_symbols or abs(float(val) - float(want)) > 1e-9 * max(1, float(want)):
                    res["violations"].append({"sub": "sample_time_until", "detail": {"query": evtxt, "printed": m.group(1), "true_1/P(ev)": str(want)}})
        except CpuTimeout:
            stats["refusals"]["timeout@sample_time"] = stats["refusals"].get("timeout@sample_time", 0) + 1
            continue
        except Exception as e:
            k_ = "sample_time:" + exc_name(e)
            stats["refusals"][k_] = stats["refusals"].get(k_, 0) + 1
        # exact inference for every target not in the evidence
        for tv in vs:
            if tv in [e[0] for e in ev] or tainted():
                continue
            for pw in (1, 2):
                args = polar.cli_defaults()
                args.sample_time_until = None
                args.exact_inference = "%s%s | %s" % (names[tv], "" if pw == 1 else "**%d" % pw, evtxt)
                args.bif_to_prob = None
                try:
                    with cpu_limit(60):
                        buf = io.StringIO()
                        with contextlib.redirect_stdout(buf):
                            BayesNetworkAction(args)(path)
                    m = re.search(r"^E\(.*\) = (.+) ≈", buf.getvalue(), re.M)
                    stats["evaluations"] += 1
                    if m:
                        val = sympy.sympify(m.group(1))
                        want = sum(p * F(vals[vs.index(tv)]) ** pw for vals, p in law.items()
                                   if all(vals[vs.index(v)] == k for v, k in ev)) / pe
                        if val.free_symbols or abs(float(val) - float(want)) > 1e-9 * max(1, float(want)):
                            res["violations"].append({"sub": "exact_inference", "detail": {"query": args.exact_inference, "printed": m.group(1),
                                                                                       "true": str(want)}})
                except CpuTimeout:
                    stats["refusals"]["timeout@exact_inference"] = stats["refusals"].get("timeout@exact_inference", 0) + 1
                    break
                except Exception as e:
                    k_ = "exact_inference:" + exc_name(e)
                    stats["refusals"][k_] = stats["refusals"].get(k_, 0) + 1
