"""C13 — Sin/Cos/Exp moments of random variables are the true expectations.

(a) FunctionalAssignment.get_func_moment over families x parameter grid x all exponent triples
    (a, b, c) for E(X^a sin^b X cos^c X) and (a, c) for E(X^a e^{cX}); mixing Sin/Cos with Exp must be
    rejected (or right); non-existent exponential moments must be rejected; both settings of
    exact_func_moments.  (b) constants Sin/Cos/Exp(q).  (c) a program family: x accumulates an iid
    increment phi(G) built from Sin/Cos/Exp/Id of a draw (or of a reference to it, or of a constant);
    E(x_n) = n m1, E(x_n^2) = n m2 + n(n-1) m1^2 with m_k from the oracle integral.
Oracle: mpmath quadrature / finite sums at 50 digits of the defining expectation (mc.dists).
"""
import itertools
from fractions import Fraction as F

from ..pool import cpu_limit, CpuTimeout
from ..common import exc_name, THOROUGH
from .. import dists

ID = "C13"
LEVEL = "exploration"
BUDGET = {"quick": 220, "thorough": 3300}
ASSUMPTIONS = [
    "oracle = 50-digit quadrature of the defining integral; exact mode must agree to 1e-22 relative (1e-9 for TruncNormal), "
    "rounded mode to 1e-17 (documented 20-digit rational)",
    "program family: increments are iid functions of one draw per iteration, so E(x_n), E(x_n^2) follow from m1, m2",
]

FAMS = {
    "Normal": [["0", "1"], ["1", "4"], ["-1/2", "1/4"]],
    "Uniform": [["0", "1"], ["-1", "2"]],
    "DistExp": [["2"], ["7/2"]],
    "Laplace": [["0", "1/4"], ["1", "1/5"]],
    "Gamma": [["2", "1/4"], ["1/2", "1/5"]],
    "Bernoulli": [["1/3"]],
    "DiscreteUniform": [["0", "2"], ["-1", "1"]],
    "TruncNormal": [["0", "1", "-1", "1"]],
    "Beta": [["2", "3"]],
}


def rule(tier):
    return ("families %s x parameter grid x exponent triples a <= %d, b + c <= %d (trig) / a <= %d, c <= 3 (exp) x exact/rounded; "
            "constants; program family; non-trivial = every case with a non-zero true value") % (
        sorted(FAMS), 1 if tier == "quick" else 2, 3 if tier == "quick" else 4, 1 if tier == "quick" else 2)


def bounds(tier):
    return {"a_max": 1 if tier == "quick" else 2, "b_plus_c_max": 3 if tier == "quick" else 4}


PROG_INCR = [
    # (statements before the update, increment expression, python function of g)
    (["s = Sin(g)"], "s", "sin(g)"),
    (["s = Cos(g)"], "s**2", "cos(g)**2"),
    (["s = Sin(g)", "t = Cos(g)"], "s*t", "sin(g)*cos(g)"),
    (["s = Sin(g)"], "s*g", "sin(g)*g"),
    (["s = Exp(g)"], "s", "exp(g)"),
    (["s = Exp(g)"], "s*g", "exp(g)*g"),
    (["h = g", "s = Cos(h)"], "s", "cos(g)"),
    (["s = Sin(g)", "t = Exp(g)"], "s*t", "sin(g)*exp(g)"),
    (["s = Sin(g)", "t = Sin(g)"], "s*t", "sin(g)**2"),
]
PROG_DISTS = [("Normal", ["0", "1"]), ("Uniform", ["0", "2"]), ("DistExp", ["3"]), ("Bernoulli", ["1/2"])]


def cases(tier, seed):
    out = []
    amax = 1 if tier == "quick" else 2
    bc = 3 if tier == "quick" else 4
    for fam, grid in FAMS.items():
        if fam in ("Beta", "TruncNormal") and tier == "quick":
            grid = grid[:1]
        for ps in grid:
            for exact in (True, False):
                trip = [(a, b, c) for a in range(amax + 1) for b in range(bc + 1) for c in range(bc + 1) if 1 <= b + c <= bc]
                if fam == "TruncNormal":
                    trip = [t for t in trip if t[0] == 0 and t[1] + t[2] <= 2]
                if fam == "Beta":
                    # powers of X times even trig powers reach the zero-frequency term of the formula
                    trip = [t for t in trip if t[0] <= 1 and t[1] + t[2] <= 2]
                out.append({"input": {"kind": "trig", "family": fam, "params": ps, "exact": exact, "triples": trip}})
                ex = [(a, c) for a in range(amax + 1) for c in range(1, 4)]
                if fam in ("Beta", "TruncNormal"):
                    ex = [(0, 1), (0, 2)]
                out.append({"input": {"kind": "exp", "family": fam, "params": ps, "exact": exact, "pairs": ex}})
            out.append({"input": {"kind": "mix", "family": fam, "params": ps}})
    for q in ("0", "1", "1/2", "-2", "0.75"):
        for f in ("Sin", "Cos", "Exp"):
            for exact in (True, False):
                out.append({"input": {"kind": "const", "func": f, "arg": q, "exact": exact}})
    for (fam, ps), (pre, incr, fn) in itertools.product(PROG_DISTS, PROG_INCR):
        for exact in (True, False):
            out.append({"input": {"kind": "program", "family": fam, "params": ps, "pre": pre, "incr": incr, "fn": fn, "exact": exact}})
    # moments of very small magnitude (closed forms for Normal / constants): the documented rounding keeps 20 significant
    # digits, so the RELATIVE error is what is judged
    for exact in (True, False):
        for spec in (("Exp", ["-60", "4"], 1), ("Exp", ["-30", "1"], 2), ("Cos", ["0", "100"], 1), ("Sin", ["1", "81"], 1),
                     ("Cos", ["2", "64"], 2), ("ExpConst", ["-55"], 1), ("ExpConst", ["-70"], 1)):
            out.append({"input": {"kind": "tiny", "func": spec[0], "params": spec[1], "power": spec[2], "exact": exact}})
    # conditioned argument must be rejected (or right)
    out.append({"input": {"kind": "program_cond", "exact": True}})
    # a functional variable defined from a draw in the init block, the drawn variable re-drawn in the loop (2 goals, one builder)
    for func, fn in (("Cos", "cos(g)"), ("Sin", "sin(g)"), ("Exp", "exp(g)")):
        for (fam0, ps0), (fam1, ps1) in ((("Normal", ["0", "1"]), ("Normal", ["1", "1"])), (("Uniform", ["0", "1"]), ("Normal", ["2", "4"])),
                                       (("Normal", ["0", "1"]), ("Uniform", ["0", "2"]))):
            out.append({"input": {"kind": "program_init", "func": func, "fn": fn, "init": [fam0, ps0], "loop": [fam1, ps1], "exact": True}})
    # a functional variable that is read before it is reassigned in the loop body (value of the previous iteration)
    for func, fn in (("Cos", "cos(g)"), ("Exp", "exp(g)")):
        for order in (["y", "s"], ["s", "y"]):
            out.append({"input": {"kind": "program_lag", "func": func, "fn": fn, "order": order, "exact": True}})
    # a conditioned functional assignment: y = f(g) with probability q, else keeps its value
    for func, fn in (("Exp", "exp(g)"), ("Cos", "cos(g)"), ("Sin", "sin(g)")):
        for exact in (True, False):
            out.append({"input": {"kind": "program_condfunc", "func": func, "fn": fn, "exact": exact}})
            # ... next to a second, independently conditioned assignment to the same variable (before / after it), and as one
            # branch of an if/else whose other branch rescales the variable
            for shape in ("after_poly", "after_func", "before_poly", "ifelse"):
                out.append({"input": {"kind": "program_condfunc", "func": func, "fn": fn, "exact": exact, "shape": shape}})
            # ... and with conditions turned into arithmetic (--cond2arithm)
            if exact:
                for shape in (None, "after_poly", "ifelse"):
                    out.append({"input": {"kind": "program_condfunc", "func": func, "fn": fn, "exact": exact, "shape": shape, "c2a": True}})
    return out


def _polar_dist(fam, ps):
    from program.distribution import distribution_factory

    return distribution_factory(fam, list(ps))


def _to_mp(x):
    import mpmath as mp
    import sympy

    return mp.mpmathify(sympy.N(sympy.sympify(str(x)), 50))


def run_case(case):
    import mpmath as mp

    mp.mp.dps = 50
    inp = case["input"]
    kind = inp["kind"]
    stats = {"evaluations": 0, "refusals": {}}
    res = {"status": "ok", "stats": stats, "violations": []}
    from .. import polar
    from program.assignment import FunctionalAssignment

    polar.reset_settings(exact_func_moments=bool(inp.get("exact", False)), cond2arithm=bool(inp.get("c2a", False)))
    try:
        if kind in ("trig", "exp", "mix"):
            fam, ps = inp["family"], inp["params"]
            psf = [F(p) for p in ps]
            tol_exact = mp.mpf("1e-9") if fam == "TruncNormal" else mp.mpf("1e-22")
            tol = tol_exact if inp.get("exact") else mp.mpf("1e-17")
            dist = _polar_dist(fam, ps)
            if kind == "trig":
                for a, b, c in inp["triples"]:
                    powers = {}
                    if a:
                        powers["Id"] = a
                    if b:
                        powers["Sin"] = b
                    if c:
                        powers["Cos"] = c
                    try:
                        with cpu_limit(20 if not THOROUGH else 90):
                            got = FunctionalAssignment.get_func_moment(dist, powers)
                    except CpuTimeout:
                        stats["refusals"]["timeout"] = stats["refusals"].get("timeout", 0) + 1
                        break
                    except Exception as e:
                        k = exc_name(e)
                        stats["refusals"][k] = stats["refusals"].get(k, 0) + 1
                        continue
                    want = dists.numeric_expect(fam, psf, lambda x: x ** a * mp.sin(x) ** b * mp.cos(x) ** c)
                    stats["evaluations"] += 1
                    if abs(want) > mp.mpf("1e-30"):
                        stats["distinct_nontrivial"] = stats.get("distinct_nontrivial", 0) + 1
                    gv = _to_mp(got)
                    if abs(gv - want) > tol * max(1, abs(want)):
                        res["violations"].append({"sub": "trig(%d,%d,%d)" % (a, b, c),
                                                  "detail": {"family": fam, "params": ps, "exact_mode": inp["exact"],
                                                             "polar": mp.nstr(gv, 25), "true": mp.nstr(want, 25)}})
            elif kind == "exp":
                radius = {"DistExp": lambda: psf[0], "Gamma": lambda: 1 / psf[1], "Laplace": lambda: 1 / psf[1]}.get(fam, lambda: None)()
                for a, c in inp["pairs"]:
                    powers = {"Exp": c}
                    if a:
                        powers["Id"] = a
                    exists = radius is None or F(c) < radius
                    try:
                        with cpu_limit(20 if not THOROUGH else 90):
                            got = FunctionalAssignment.get_func_moment(dist, powers)
                    except CpuTimeout:
                        stats["refusals"]["timeout"] = stats["refusals"].get("timeout", 0) + 1
                        break
                    except Exception as e:
                        k = exc_name(e)
                        stats["refusals"][k] = stats["refusals"].get(k, 0) + 1
                        continue
                    stats["evaluations"] += 1
                    if not exists:
                        res["violations"].append({"sub": "exp(%d,%d)" % (a, c),
                                                  "detail": {"family": fam, "params": ps, "problem": "exponential moment does not exist but was answered",
                                                             "polar": str(got)[:100]}})
                        continue
                    want = dists.numeric_expect(fam, psf, lambda x: x ** a * mp.exp(c * x))
                    stats["distinct_nontrivial"] = stats.get("distinct_nontrivial", 0) + 1
                    gv = _to_mp(got)
                    if abs(gv - want) > tol * max(1, abs(want)):
                        res["violations"].append({"sub": "exp(%d,%d)" % (a, c),
                                                  "detail": {"family": fam, "params": ps, "exact_mode": inp["exact"],
                                                             "polar": mp.nstr(gv, 25), "true": mp.nstr(want, 25)}})
            else:
                # Sin * Exp mixing: rejected or right
                polar.reset_settings(exact_func_moments=True)
                for powers, f in (({"Sin": 1, "Exp": 1}, lambda x: mp.sin(x) * mp.exp(x)),
                                  ({"Cos": 1, "Exp": 1, "Id": 1}, lambda x: x * mp.cos(x) * mp.exp(x))):
                    try:
                        with cpu_limit(20):
                            got = FunctionalAssignment.get_func_moment(dist, dict(powers))
                    except CpuTimeout:
                        stats["refusals"]["timeout"] = 1
                        break
                    except Exception as e:
                        k = exc_name(e)
                        stats["refusals"][k] = stats["refusals"].get(k, 0) + 1
                        continue
                    stats["evaluations"] += 1
                    try:
                        want = dists.numeric_expect(fam, psf, f)
                    except Exception:
                        continue
                    stats["distinct_nontrivial"] = stats.get("distinct_nontrivial", 0) + 1
                    gv = _to_mp(got)
                    if abs(gv - want) > mp.mpf("1e-9") * max(1, abs(want)):
                        res["violations"].append({"sub": "mix%s" % sorted(powers),
                                                  "detail": {"family": fam, "params": ps, "polar": mp.nstr(gv, 25), "true": mp.nstr(want, 25)}})
            res["sample"] = {"kind": kind, "family": fam, "params": ps}
        elif kind == "const":
            fa = FunctionalAssignment("v", inp["func"], inp["arg"])
            q = F(inp["arg"])
            qm = mp.mpf(q.numerator) / q.denominator
            f = {"Sin": mp.sin, "Cos": mp.cos, "Exp": mp.exp}[inp["func"]]
            for k in (1, 2, 3):
                got = fa.get_const_moment(k)
                want = f(qm) ** k
                stats["evaluations"] += 1
                stats["distinct_nontrivial"] = stats.get("distinct_nontrivial", 0) + 1
                tol = mp.mpf("1e-25") if inp["exact"] else mp.mpf("1e-17")
                if abs(_to_mp(got) - want) > tol * max(1, abs(want)):
                    res["violations"].append({"sub": "const^%d" % k, "detail": {"func": inp["func"], "arg": inp["arg"], "exact_mode": inp["exact"],
                                                                            "polar": str(got)[:60], "true": mp.nstr(want, 25)}})
            res["sample"] = dict(inp)
        elif kind == "program":
            res = run_program(inp, stats, res)
        elif kind == "program_lag":
            res = run_program_lag(inp, stats, res)
        elif kind == "program_init":
            res = run_program_init(inp, stats, res)
        elif kind == "tiny":
            res = run_tiny(inp, stats, res)
        elif kind == "program_condfunc":
            res = run_program_condfunc(inp, stats, res)
        else:
            text = ("c = 0\ng = 0\nx = 0\nwhile true:\n    c = Bernoulli(1/2)\n    if c == 1:\n        g = Normal(0, 1)\n    end\n"
                    "    s = Sin(g)\n    x = x + s\nend\n")
            try:
                with cpu_limit(40):
                    program = polar.normalize(polar.parse(text))
                    sol, exact, _ = polar.solve(program, "x")
                    # g keeps its old value with probability 1/2: s = sin(g) with g ~ N(0,1) (or the initial 0): E s = 0 -> E x = 0
                    import sympy

                    for n in range(4):
                        v = polar.at_n(sol, n)
                        stats["evaluations"] += 1
                        if abs(complex(sympy.N(v, 30))) > 1e-12:
                            res["violations"].append({"sub": "conditioned-argument", "detail": {"program": text, "n": n, "polar": str(v)[:80], "true": "0"}})
                            break
            except CpuTimeout:
                stats["refusals"]["timeout"] = 1
            except Exception as e:
                stats["refusals"][exc_name(e)] = 1
            res["sample"] = {"program": text}
    finally:
        polar.reset_settings()
    if res["violations"]:
        res["status"] = "violation"
    return res


def run_program(inp, stats, res):
    import mpmath as mp
    import sympy
    from .. import polar

    fam, ps = inp["family"], inp["params"]
    psf = [F(p) for p in ps]
    lines = ["g = 0", "x = 0", "while true:", "    g = %s(%s)" % (fam, ", ".join(ps))]
    for st in inp["pre"]:
        lines.append("    " + st)
    lines.append("    x = x + " + inp["incr"])
    lines.append("end")
    text = "\n".join(lines) + "\n"
    res["sample"] = {"program": text, "exact_mode": inp["exact"]}
    env = {"sin": mp.sin, "cos": mp.cos, "exp": mp.exp}
    f = lambda g: eval(inp["fn"], dict(env, g=g))
    try:
        m1 = dists.numeric_expect(fam, psf, f)
        m2 = dists.numeric_expect(fam, psf, lambda g: f(g) ** 2)
    except Exception:
        return res
    try:
        with cpu_limit(60 if not THOROUGH else 200):
            program = polar.normalize(polar.parse(text))
            from recurrences import RecBuilder

            rb = RecBuilder(program)
            for goal, truth in (("x", lambda n: n * m1), ("x**2", lambda n: n * m2 + n * (n - 1) * m1 ** 2)):
                sol, exact, _ = polar.solve(program, goal, rb=rb)
                for n in range(0, 5):
                    v = polar.at_n(sol, n)
                    gv = mp.mpmathify(sympy.N(v, 50))
                    want = truth(n)
                    stats["evaluations"] += 1
                    tol = mp.mpf("1e-20") if inp["exact"] else mp.mpf("1e-14")
                    if abs(gv - want) > tol * max(1, abs(want)):
                        res["violations"].append({"sub": "E(%s)" % goal, "detail": {"program": text, "n": n, "exact_mode": inp["exact"],
                                                                              "polar": mp.nstr(gv, 25), "true": mp.nstr(want, 25)}})
                        break
            stats["distinct_nontrivial"] = stats.get("distinct_nontrivial", 0) + 1
    except CpuTimeout:
        stats["refusals"]["timeout"] = 1
    except Exception as e:
        k = exc_name(e)
        stats["refusals"][k] = stats["refusals"].get(k, 0) + 1
    return res


def _solve_and_compare(text, goals_truth, stats, res, exact, limit=90):
    import mpmath as mp
    import sympy
    from .. import polar
    from recurrences import RecBuilder

    try:
        with cpu_limit(limit if not THOROUGH else 300):
            program = polar.normalize(polar.parse(text))
            rb = RecBuilder(program)
            for goal, truth in goals_truth:
                sol, ex, _ = polar.solve(program, goal, rb=rb)
                for n in range(0, 5):
                    gv = mp.mpmathify(sympy.N(polar.at_n(sol, n), 50))
                    want = truth(n)
                    stats["evaluations"] += 1
                    tol = mp.mpf("1e-20") if exact else mp.mpf("1e-14")
                    if abs(gv - want) > tol * max(1, abs(want)):
                        res["violations"].append({"sub": "E(%s)" % goal, "detail": {"program": text, "n": n, "exact_mode": exact,
                                                                              "polar": mp.nstr(gv, 25), "true": mp.nstr(want, 25)}})
                        break
            stats["distinct_nontrivial"] = stats.get("distinct_nontrivial", 0) + 1
    except CpuTimeout:
        stats["refusals"]["timeout"] = 1
    except Exception as e:
        k = exc_name(e)
        stats["refusals"][k] = stats["refusals"].get(k, 0) + 1
    return res


def run_program_init(inp, stats, res):
    """s = f(G0) fixed by the init block; loop: g = G_n (iid, independent of G0); y = y + s*g.
    E(y_n) = n m_s mu ;  E(y_n^2) = m_s2 (n var + n^2 mu^2)."""
    import mpmath as mp

    (f0, p0), (f1, p1) = inp["init"], inp["loop"]
    text = ("g = %s(%s)\ns = %s(g)\ny = 0\nwhile true:\n    g = %s(%s)\n    y = y + s*g\nend\n"
            % (f0, ", ".join(p0), inp["func"], f1, ", ".join(p1)))
    res["sample"] = {"program": text}
    env = {"sin": mp.sin, "cos": mp.cos, "exp": mp.exp}
    f = lambda g: eval(inp["fn"], dict(env, g=g))
    ms = dists.numeric_expect(f0, [F(p) for p in p0], f)
    ms2 = dists.numeric_expect(f0, [F(p) for p in p0], lambda g: f(g) ** 2)
    mu = dists.exact_moment(f1, [F(p) for p in p1], 1)
    m2 = dists.exact_moment(f1, [F(p) for p in p1], 2)
    mu, m2 = mp.mpf(mu.numerator) / mu.denominator, mp.mpf(m2.numerator) / m2.denominator
    var = m2 - mu ** 2
    return _solve_and_compare(text, [("y", lambda n: n * ms * mu), ("y**2", lambda n: ms2 * (n * var + n * n * mu ** 2)),
                                     ("s", lambda n: ms)], stats, res, inp["exact"])


def run_tiny(inp, stats, res):
    """E(f(X)^k) for X ~ Normal(mu, s2) (or f of a constant) where the true value is below 1e-20: closed forms
    E exp(kX) = exp(k mu + k^2 s2/2);  E cos X = exp(-s2/2) cos mu;  E sin X = exp(-s2/2) sin mu;
    E cos^2 X = (1 + exp(-2 s2) cos 2mu)/2 (not tiny: control).  Relative tolerance 1e-15."""
    import mpmath as mp
    from program.assignment import FunctionalAssignment

    func, ps, k = inp["func"], inp["params"], inp["power"]
    res["sample"] = dict(inp)
    try:
        if func == "ExpConst":
            fa = FunctionalAssignment("y", "Exp", ps[0])
            with cpu_limit(20):
                got = fa.get_const_moment(k)
            want = mp.e ** (k * mp.mpf(ps[0]))
        else:
            mu, s2 = mp.mpf(ps[0]), mp.mpf(ps[1])
            dist = _polar_dist("Normal", ps)
            powers = {func: k}
            with cpu_limit(20):
                got = FunctionalAssignment.get_func_moment(dist, powers)
            if func == "Exp":
                want = mp.e ** (k * mu + k * k * s2 / 2)
            elif func == "Cos" and k == 1:
                want = mp.e ** (-s2 / 2) * mp.cos(mu)
            elif func == "Sin" and k == 1:
                want = mp.e ** (-s2 / 2) * mp.sin(mu)
            else:
                want = (1 + mp.e ** (-2 * s2) * mp.cos(2 * mu)) / 2
    except CpuTimeout:
        stats["refusals"]["timeout"] = 1
        return res
    except Exception as e:
        stats["refusals"][exc_name(e)] = 1
        return res
    stats["evaluations"] += 1
    stats["distinct_nontrivial"] = 1
    gv = _to_mp(got)
    if abs(gv - want) > mp.mpf("1e-15") * abs(want):
        res["violations"].append({"sub": "tiny-moment", "detail": {"func": func, "params": ps, "power": k, "exact_mode": inp["exact"],
                                                                 "polar": mp.nstr(gv, 25), "true": mp.nstr(want, 25)}})
    return res


def run_program_condfunc(inp, stats, res):
    """y = f(g) with probability 1/2 (g ~ N(0,1) drawn unconditionally), else y keeps its value; x accumulates y."""
    import mpmath as mp

    text = ("c = 0\ng = 0\ny = 1\nx = 0\nwhile true:\n    c = Bernoulli(1/2)\n    g = Normal(0, 1)\n    if c == 1:\n        y = %s(g)\n    end\n"
            "    x = x + y\nend\n" % inp["func"])
    res["sample"] = {"program": text}
    env = {"sin": mp.sin, "cos": mp.cos, "exp": mp.exp}
    f = lambda g: eval(inp["fn"], dict(env, g=g))
    m1 = dists.numeric_expect("Normal", [F(0), F(1)], f)
    m2 = dists.numeric_expect("Normal", [F(0), F(1)], lambda g: f(g) ** 2)

    def ey(n, m, y0=mp.mpf(1)):
        v = y0
        for _ in range(n):
            v = m / 2 + v / 2
        return v

    def ex(n):
        return sum(ey(i, m1) for i in range(1, n + 1))

    shape = inp.get("shape")
    if not shape:
        return _solve_and_compare(text, [("y", lambda n: ey(n, m1)), ("y**2", lambda n: ey(n, m2)), ("x", ex)], stats, res, inp["exact"])
    # E(y^k)_{n+1} = A_k + B_k E(y^k)_n
    s1 = dists.numeric_expect("Normal", [F(0), F(1)], lambda g: mp.sin(g))
    s2 = dists.numeric_expect("Normal", [F(0), F(1)], lambda g: mp.sin(g) ** 2)
    m = {1: m1, 2: m2}
    half, quarter = mp.mpf(1) / 2, mp.mpf(1) / 4
    if shape == "after_poly":
        body = "    if c == 1:\n        y = 5\n    end\n    if d == 1:\n        y = %s(g)\n    end\n" % inp["func"]
        AB = {k: (half * m[k] + quarter * 5 ** k, quarter) for k in (1, 2)}
    elif shape == "after_func":
        body = "    if c == 1:\n        y = Sin(g)\n    end\n    if d == 1:\n        y = %s(g)\n    end\n" % inp["func"]
        AB = {k: (half * m[k] + quarter * {1: s1, 2: s2}[k], quarter) for k in (1, 2)}
    elif shape == "before_poly":
        body = "    if d == 1:\n        y = %s(g)\n    end\n    if c == 1:\n        y = 5\n    end\n" % inp["func"]
        AB = {k: (half * 5 ** k + quarter * m[k], quarter) for k in (1, 2)}
    else:
        body = "    if c == 1:\n        y = %s(g)\n    else:\n        y = y/2\n    end\n" % inp["func"]
        AB = {k: (half * m[k], half / 2 ** k) for k in (1, 2)}
    text = ("c = 0\nd = 0\ng = 0\ny = 1\nx = 0\nwhile true:\n    c = Bernoulli(1/2)\n    d = Bernoulli(1/2)\n    g = Normal(0, 1)\n" + body +
            "    x = x + y\nend\n")
    res["sample"] = {"program": text}

    def eyk(n, k):
        v = mp.mpf(1)
        for _ in range(n):
            v = AB[k][0] + AB[k][1] * v
        return v

    return _solve_and_compare(text, [("y", lambda n: eyk(n, 1)), ("y**2", lambda n: eyk(n, 2)),
                                     ("x", lambda n: sum(eyk(i, 1) for i in range(1, n + 1)))], stats, res, inp["exact"])


def run_program_lag(inp, stats, res):
    """y accumulates the value s had in the PREVIOUS iteration (s is read before it is reassigned): y_n = 5 + (n-1) m1 for n >= 1."""
    import mpmath as mp

    text = "y = 0\ns = 5\nwhile true:\n    g = Normal(0, 1)\n    y = y + s\n    s = %s(g)\nend\n" % inp["func"]
    res["sample"] = {"program": text, "goal_order": inp["order"]}
    env = {"sin": mp.sin, "cos": mp.cos, "exp": mp.exp}
    f = lambda g: eval(inp["fn"], dict(env, g=g))
    m1 = dists.numeric_expect("Normal", [F(0), F(1)], f)
    truth = {"y": lambda n: mp.mpf(0) if n == 0 else 5 + (n - 1) * m1, "s": lambda n: mp.mpf(5) if n == 0 else m1}
    return _solve_and_compare(text, [(g, truth[g]) for g in inp["order"]], stats, res, inp["exact"])
