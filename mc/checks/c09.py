"""C09 — moments after termination equal the expectation at loop exit.

Guarded programs are explored (explicit-state Markov chain, exact probabilities):
 (1) finite n: E(M ; stopped) / P(stopped) from the model vs Polar's moment-given-termination sequence
     at every n where the event has positive probability.  Polar conditions on "the guard was false at
     the beginning of iteration n" (T <= n-1); the property's wording also admits T <= n; a sequence is
     accepted iff it follows ONE of the two alignments at every n (recorded which).
 (2) the reported limit (--after_loop): exit law by exact absorbing-chain analysis on the explored
     state graph when the monomial only involves finite-state variables; for accumulators the model's
     conditional expectation at depth D and D/2 gives an estimate with error bar |v_D - v_D/2|.
 (3) divergence family x = a*x with stop probability q: a(1-q) >= 1  =>  Polar must report oo.
"""
import re
from fractions import Fraction as F

from .. import gen
from ..common import base_programs, exc_name, build_model, THOROUGH
from ..model import NotApplicable, CapHit
from ..refparser import NotPolynomial
from ..poly import parse_poly, Poly, ZERO
from ..pool import cpu_limit, CpuTimeout, tainted

ID = "C09"
LEVEL = "model_checking"
BUDGET = {"quick": 220, "thorough": 3300}
ASSUMPTIONS = [
    "finite-n values are exact; the alignment (T <= n-1 or T <= n) must be uniform over n",
    "limits for accumulators are judged against the model at depth D with the error bar 10*|v_D - v_(D/2)| + 1e-9 "
    "(geometric convergence assumed, not proved); finite-state monomials use the exact absorbing-chain solution",
]

FAMILY = [
    # loop constants in the goal next to a guard over two variables (goal x guard expands into coefficient * product monomials)
    "c = 1\nd = 0\ny = 2\nz = 3\nwhile c == 1 && d == 0:\n    z = y\n    c, d = d, c\nend\n",
    "c = 1\nd = 0\nk = 3\nx = 0\nwhile c == 1 && d == 0:\n    c = Bernoulli(1/2)\n    d = Bernoulli(1/4)\n    x = x + k\nend\n",
    "c = 1\nx = 0\nwhile c == 1:\n    c = Bernoulli(1/2)\n    x = x + 1\nend\n",
    "c = 1\nx = 0\ny = 1\nwhile c == 1:\n    c = Bernoulli(1/3)\n    x = x + y\n    y = y + 1\nend\n",
    # guard + single top-level if (the collapse shortcut)
    "c = 1\nd = 1\nx = 0\nwhile c == 1:\n    if d == 1:\n        c = Bernoulli(1/2)\n        d = Bernoulli(1/2)\n        x = x + 1\n    end\nend\n",
    "c = 1\nd = 0\nwhile c == 1:\n    if d == 0:\n        c = Bernoulli(1/2)\n        d = Bernoulli(1/3)\n    end\nend\n",
    # guard over two variables
    "c = 1\nd = 0\nx = 0\nwhile c == 1 && d == 0:\n    c = Bernoulli(1/2)\n    d = Bernoulli(1/4)\n    x = x + c\nend\n",
    # multi-assignment under the guard
    "c = 1\nx = 0\nwhile c == 1:\n    c = Bernoulli(1/2)\n    x = 1\n    x = x + 1\nend\n",
    # three-valued guard variable, inequality guard
    "c = 0\nx = 0\nwhile c < 2:\n    c = c + 1 {1/2} c\n    x = x + 1\nend\n",
    # inequality guards that normalise to a disjunction of equalities
    "c = 0\nx = 0\nwhile c < 2:\n    c = DiscreteUniform(0, 3)\n    x = x + c\nend\n",
    "c = 3\nx = 0\nwhile c >= 1:\n    c = DiscreteUniform(0, 3)\n    x = x + 1\nend\n",
    "types\n    c : Finite(0, 1, 2, 3)\nend\nc = 0\nd = 0\nx = 0\nwhile c < 3:\n    if c == 2:\n        c = 3 {1/4} 0 {1/4} 2\n    elif c == 1:\n        c = 1\n    else:\n        c = 2 {1/2} 1\n    end\n    x = x + 1\nend\n",
    "c = 1\nd = 1\nx = 0\nwhile c + d > 0:\n    c = Bernoulli(1/2)\n    d = Bernoulli(1/2)\n    x = x + c\nend\n",
    "c = 2\nx = 1\nwhile !(c == 0):\n    c = DiscreteUniform(0, 2)\n    x = x + c\nend\n",
    # exit value depends on the exit branch
    "c = 1\nx = 0\nwhile c == 1:\n    c = 0 {1/4} 1 {1/2} 2\n    if c == 2:\n        x = 5\n    else:\n        x = x + 1\n    end\nend\n",
    # terminates with probability < 1 (d = 1 freezes c = 1 forever)
    "c = 1\nd = 0\nx = 0\nwhile c == 1:\n    if d == 0:\n        c = Bernoulli(1/2)\n    end\n    d = 1 {1/4} d\n    x = x + 1\nend\n",
    # guard variable assigned before other updates that read it
    "c = 1\nx = 0\nwhile c == 1:\n    c = Bernoulli(1/2)\n    x = x + c\nend\n",
    "c = 1\nx = 1\nwhile c == 1:\n    x = 3/2*x\n    c = Bernoulli(1/2)\nend\n",
]
FAMILY_GOALS = [
    ("k = Bernoulli(1/2)\nc = 2*k\ny = 0\nwhile c < 2:\n    if c == 0:\n        c = 1 {1/4} 2 {1/4} 0\n    end\n    y = y + 1\nend\n", ["k", "k**2", "y", "k*y"]),
    ("k = DiscreteUniform(0, 2)\nc = 1\nx = 0\nwhile c == 1:\n    c = Bernoulli(1/2)\n    x = x + k\nend\n", ["k", "k*x", "x", "k**2"]),
    ("k = Bernoulli(1/3)\nc = k\nx = 5\nwhile c == 0:\n    c = Bernoulli(1/2)\n    x = x + 1\nend\n", ["k", "x", "k*x"]),
    # a finite variable assigned three times under a guard: its value after exit lies outside the in-loop values of the
    # intermediate versions (goals of degree 3 need the types of those versions)
    ("f = 0\nx = 0\nwhile f == 0:\n    x = Bernoulli(1/2)\n    x = x + 1\n    x = 3*x\n    f = Bernoulli(1/3)\nend\n", ["x", "x**2", "x**3"]),
    ("f = 0\nx = 1\ny = 0\nwhile f == 0:\n    x = DiscreteUniform(0, 2)\n    x = 2*x + 1\n    x = x*x\n    y = y + x\n    f = Bernoulli(1/2)\nend\n", ["x", "x**3", "y", "x**2"]),
    # guards that are overlapping disjunctions over one variable
    ("c = 0\nx = 0\nwhile c <= 1 || c == 1:\n    c = DiscreteUniform(0, 2)\n    x = x + c\nend\n", ["c", "x", "c*x", "x**2"]),
    ("c = 2\nx = 0\nwhile c >= 1 || c == 2 || c > 1:\n    c = 0 {1/4} 1 {1/4} 2\n    x = x + 1\nend\n", ["c", "x", "c*x"]),
    # the guard reads a random loop constant (termination with probability < 1) and the goals mention it
    ("p = 0 {1/4} 1 {1/2} 2\ny = 0\nwhile p == 1:\n    y = y + 1\nend\n", ["p", "p**2", "p*y", "y"]),
    ("p = Bernoulli(1/2)\nx = Bernoulli(1/3)\ny = 0\nwhile p == 1:\n    y = y + x\nend\n", ["p*x", "x", "y", "p*y"]),
    ("c = 0 {1/4} 1 {1/4} 2\nx = 0\ny = 0\nwhile x == 0 || c == 1:\n    x = Bernoulli(1/2)\n    y = y + 1\nend\n", ["c", "c*x", "c*y", "y"]),
    ("p = Bernoulli(1/2)\nc = 1\nx = 0\nwhile p == 0 && c == 1:\n    c = Bernoulli(1/2)\n    x = x + 1\nend\n", ["p", "p*x", "x"]),
]
DIVERGE = [
    ("c = 1\nx = 1\nwhile c == 1:\n    x = 2*x\n    c = Bernoulli(1/2)\nend\n", "x", True),
    ("c = 1\nx = 1\nwhile c == 1:\n    x = 3*x\n    c = Bernoulli(1/2)\nend\n", "x", True),
    ("c = 1\nx = 1\nwhile c == 1:\n    x = 2*x\n    c = Bernoulli(1/4)\nend\n", "x", False),
    ("c = 1\nx = 1\nwhile c == 1:\n    x = 2*x\n    c = Bernoulli(1/4)\nend\n", "x**2", True),
    ("c = 1\nx = 1\nwhile c == 1:\n    x = 2*x\n    c = Bernoulli(1/5)\nend\n", "x**2", False),
    ("c = 1\nx = 1\nwhile c == 1:\n    x = 2*x\n    c = Bernoulli(1/3)\nend\n", "x**2", True),
]


def rule(tier):
    return ("guarded programs: C09 family + guarded programs of the statement-sequence grammar x monomials over finite variables and "
            "accumulators x goal kinds {raw, central 2, cumulant 2}; non-trivial = conditional sequence not constant in n or exit law with >= 2 points")


def bounds(tier):
    return {"depth_N": 5, "limit_depth_D": 40}


def cases(tier, seed):
    out = []
    progs = list(FAMILY)
    for t in base_programs(tier, with_cont=False):
        if "while true" in t or "p" in re.findall(r"[a-z]+", t):
            continue
        progs.append(t)
    step = 1 if tier != "quick" else 2
    seed_set = set(gen.SEEDS)
    sel = FAMILY + [t for i, t in enumerate(progs[len(FAMILY):]) if i % step == 0 or t in seed_set]
    for text in sel:
        goals = gen.goals_for(text, 2, 4 if tier == "quick" else 6)
        out.append({"input": {"kind": "program", "text": text, "goals": goals}, "N": 5})
    for text, goals in FAMILY_GOALS:
        out.append({"input": {"kind": "program", "text": text, "goals": goals}, "N": 5})
    for text, goal, div in DIVERGE:
        out.append({"input": {"kind": "diverge", "text": text, "goal": goal, "diverges": div}})
    # central moments / cumulants after the loop when several raw moments diverge: must be reported as oo (not nan)
    sp = "stop = 0\nc = 1\nd = 1\nwhile stop == 0:\n    stop = Bernoulli(1/2)\n    c = 2*c\n    d = 3*d/2\nend\n"
    for goal, div in (("c2(c)", True), ("k2(c)", True), ("c3(d)", True), ("k3(d)", True), ("c2(d)", True), ("E(d)", False)):
        out.append({"input": {"kind": "diverge_goal", "text": sp, "goal": goal, "diverges": div}})
    return out


def cond_seq(model, gp, n, shift):
    """E(M_n ; guard false at boundary n - shift) / P(...)  -> Fraction or None"""
    k = n - shift
    if k < 0:
        return None
    dist_k = model.run(max(n, k))[k]
    num = ZERO
    den = ZERO
    for st, pr in dist_k.values():
        if not model.cond(model.prog.guard, st):
            den = den + pr
            num = num + model.expect_atoms(pr * model.ev(gp, st))  # frozen: M_n = M_k on these paths
    if den.is_zero():
        return None
    if not (num.is_const() and den.is_const()):
        raise NotApplicable("symbolic")
    return num.const_value() / den.const_value()


def exit_expectation_finite(model, gp, cap=3000):
    """Exact E(M at exit | termination) by absorbing-chain analysis when the reachable state graph is finite."""
    # enumerate state graph
    init = model.initial()
    index = {}
    states = []
    trans = {}
    from ..poly import ONE

    def add(st):
        k = model.skey(st)
        if k not in index:
            index[k] = len(states)
            states.append(st)
        return index[k]

    start = {}
    for k, (st, pr) in init.items():
        i = add(st)
        start[i] = start.get(i, F(0)) + pr.const_value()
    i = 0
    while i < len(states):
        st = states[i]
        if model.cond(model.prog.guard, st):
            row = {}
            for s2, pr, _ in model.exec_stmts(model.prog.body, st, ONE, 0, ()):
                if pr.is_zero():
                    continue
                j = add(s2)
                row[j] = row.get(j, F(0)) + pr.const_value()
            trans[i] = row
        if len(states) > cap:
            return None
        i += 1
    absorbing = [i for i in range(len(states)) if i not in trans]
    transient = [i for i in range(len(states)) if i in trans]
    # hitting probabilities h_i(a) and expected payoff u_i = sum_a h_i(a) M(a); solve (I - Q) u = R M , (I - Q) t = R 1
    payoff = {}
    for a in absorbing:
        v = model.ev(gp, states[a])
        if not v.is_const():
            return None
        payoff[a] = v.const_value()
    n = len(transient)
    pos = {s: k for k, s in enumerate(transient)}

    def solve(rhs_fn):
        A = [[F(0)] * (n + 1) for _ in range(n)]
        for s in transient:
            r = pos[s]
            A[r][r] += 1
            for j, p in trans[s].items():
                if j in pos:
                    A[r][pos[j]] -= p
                else:
                    A[r][n] += p * rhs_fn(j)
        # Gaussian elimination; singular => some transient class never leaves: restrict via least solution
        for c in range(n):
            p = None
            for r in range(c, n):
                if A[r][c] != 0:
                    p = r
                    break
            if p is None:
                # state c cannot reach absorption and is unreachable from pivots: value 0
                A[c][c] = F(1)
                A[c][n] = F(0)
                p = c
            A[c], A[p] = A[p], A[c]
            pv = A[c][c]
            A[c] = [x / pv for x in A[c]]
            for r in range(n):
                if r != c and A[r][c] != 0:
                    f = A[r][c]
                    A[r] = [a - f * b for a, b in zip(A[r], A[c])]
        return [A[r][n] for r in range(n)]

    try:
        u = solve(lambda a: payoff[a])
        t = solve(lambda a: F(1))
    except ZeroDivisionError:
        return None
    num = F(0)
    den = F(0)
    for i, p0 in start.items():
        if i in pos:
            num += p0 * u[pos[i]]
            den += p0 * t[pos[i]]
        else:
            num += p0 * payoff[i]
            den += p0
    if den == 0:
        return None
    return num / den, den


def run_case(case):
    from .. import polar
    import sympy

    inp = case["input"]
    text = inp["text"]
    stats = {"programs": 1, "evaluations": 0, "refusals": {}}
    res = {"status": "ok", "stats": stats, "violations": []}
    N = case.get("N", 5)
    try:
        with cpu_limit(20):
            model = build_model(text)
            model.run(N)
    except (NotApplicable, NotPolynomial, CapHit, CpuTimeout):
        res["status"] = "na"
        return res
    polar.reset_settings()
    try:
        with cpu_limit(30):
            program = polar.normalize(polar.parse(text))
    except CpuTimeout:
        stats["refusals"]["timeout@normalize"] = 1
        res["status"] = "refusal"
        return res
    except Exception as e:
        stats["refusals"][exc_name(e)] = 1
        res["status"] = "refusal"
        return res
    from cli.common import get_moment_given_termination, transform_to_after_loop
    from cli.actions.goals_action import GoalsAction
    from inputparser import GoalParser
    from recurrences import RecBuilder
    from symengine.lib.symengine_wrapper import sympify as se

    args = polar.cli_defaults()
    rb = RecBuilder(program)
    solvers = {}
    if inp["kind"] == "diverge_goal":
        ga_args = polar.cli_defaults()
        ga_args.after_loop = True
        ga = GoalsAction(ga_args)
        ga.initialize_program(program, rb)
        try:
            with cpu_limit(90):
                gt, gd = GoalParser.parse(inp["goal"])
                if gt == "MOMENT":
                    val, _ = ga.handle_moment_goal(gd)
                elif gt == "CENTRAL":
                    val, _ = ga.handle_central_moment_goal(gd)
                else:
                    val, _ = ga.handle_cumulant_goal(gd)
        except CpuTimeout:
            stats["refusals"]["timeout"] = 1
            res["status"] = "refusal"
            return res
        except Exception as e:
            stats["refusals"][exc_name(e)] = 1
            res["status"] = "refusal"
            return res
        val = sympy.sympify(val)
        stats["evaluations"] += 1
        stats["distinct_nontrivial"] = 1
        res["sample"] = {"program": text, "goal": inp["goal"], "polar_after_loop": str(val), "diverges": inp["diverges"]}
        is_inf = val in (sympy.oo, sympy.zoo, -sympy.oo)
        if inp["diverges"] and not is_inf:
            res["violations"].append({"sub": "divergence %s" % inp["goal"],
                                      "detail": {"program": text, "polar_after_loop": str(val), "truth": "diverges (must be reported as oo)"}})
            res["status"] = "violation"
        if not inp["diverges"] and (is_inf or val.has(sympy.nan)):
            res["violations"].append({"sub": "divergence %s" % inp["goal"],
                                      "detail": {"program": text, "polar_after_loop": str(val), "truth": "finite"}})
            res["status"] = "violation"
        stats["states"] = model.states_seen
        stats["transitions"] = model.transitions
        return res
    if inp["kind"] == "diverge":
        try:
            with cpu_limit(60):
                mgt, exact = get_moment_given_termination(se(inp["goal"]), solvers, rb, args, program)
                lim = transform_to_after_loop(mgt)
        except CpuTimeout:
            stats["refusals"]["timeout"] = 1
            res["status"] = "refusal"
            return res
        except Exception as e:
            stats["refusals"][exc_name(e)] = 1
            res["status"] = "refusal"
            return res
        stats["evaluations"] += 1
        stats["distinct_nontrivial"] = 1
        is_inf = lim in (sympy.oo, sympy.zoo) or lim.has(sympy.oo)
        res["sample"] = {"program": text, "goal": inp["goal"], "polar_limit": str(lim), "diverges": inp["diverges"]}
        if is_inf != inp["diverges"]:
            res["violations"].append({"sub": "divergence E(%s)" % inp["goal"],
                                      "detail": {"program": text, "polar_limit": str(lim), "diverges_in_truth": inp["diverges"]}})
            res["status"] = "violation"
        stats["states"] = model.states_seen
        stats["transitions"] = model.transitions
        return res

    for goal in inp["goals"]:
        if tainted():
            stats["refusals"]["skipped_after_timeout"] = stats["refusals"].get("skipped_after_timeout", 0) + 1
            continue
        gp = parse_poly(goal)
        try:
            with cpu_limit(15 if not THOROUGH else 60):
                mgt, exact = get_moment_given_termination(se(goal), solvers, rb, args, program)
                mgt = sympy.sympify(mgt)
        except CpuTimeout:
            stats["refusals"]["timeout@mgt"] = stats["refusals"].get("timeout@mgt", 0) + 1
            continue
        except Exception as e:
            k = exc_name(e)
            stats["refusals"][k] = stats["refusals"].get(k, 0) + 1
            continue
        # (1) finite n, either alignment but uniformly
        try:
            with cpu_limit(15):
                ok_align = {0: True, 1: True}
                seqs = {0: [], 1: []}
                compared = 0
                kmax = max(N, polar.own_max_case(mgt) + 2)
                first_bad = {}
                for n in range(1, kmax + 1):
                    try:
                        obs = polar.at_n(mgt, n)
                        obs = sympy.nsimplify(sympy.simplify(obs)) if obs.free_symbols else obs
                    except Exception:
                        continue
                    if obs.has(sympy.nan) or obs.has(sympy.zoo):
                        continue
                    for shift in (1, 0):
                        t = cond_seq(model, gp, n, shift)
                        if t is None:
                            continue
                        verdict, how, txt = polar.compare_value(obs, Poly.const(t))
                        stats["evaluations"] += 1
                        seqs[shift].append(t)
                        if verdict == "neq":
                            ok_align[shift] = False
                            first_bad.setdefault(shift, {"n": n, "expected": str(t), "observed": txt})
                    compared += 1
                if compared and not (ok_align[0] or ok_align[1]):
                    res["violations"].append({"sub": "given-termination E(%s)" % goal,
                                              "detail": {"program": text, "polar": str(mgt)[:400],
                                                         "mismatch_T<=n-1": first_bad.get(1), "mismatch_T<=n": first_bad.get(0)}})
                elif compared:
                    stats["alignment_T<=n-1"] = stats.get("alignment_T<=n-1", 0) + (1 if ok_align[1] else 0)
                    stats["alignment_T<=n"] = stats.get("alignment_T<=n", 0) + (1 if ok_align[0] else 0)
        except CpuTimeout:
            stats["refusals"]["timeout@compare"] = stats["refusals"].get("timeout@compare", 0) + 1
            continue
        except NotApplicable:
            continue
        # (2) the limit
        if tainted():
            continue
        try:
            with cpu_limit(20 if not THOROUGH else 60):
                lim = transform_to_after_loop(mgt)
            if lim is None:
                stats["refusals"]["limit:None"] = stats["refusals"].get("limit:None", 0) + 1
                continue
            lim = sympy.sympify(lim)
        except CpuTimeout:
            stats["refusals"]["timeout@limit"] = stats["refusals"].get("timeout@limit", 0) + 1
            continue
        except Exception as e:
            k = "limit:" + exc_name(e)
            stats["refusals"][k] = stats["refusals"].get(k, 0) + 1
            continue
        try:
            with cpu_limit(30):
                exact_exit = exit_expectation_finite(model, gp)
                if exact_exit is not None:
                    want, pterm = exact_exit
                    stats["evaluations"] += 1
                    stats["limits_exact"] = stats.get("limits_exact", 0) + 1
                    verdict, how, txt = polar.compare_value(sympy.sympify(lim), Poly.const(want))
                    if verdict == "neq":
                        res["violations"].append({"sub": "after-loop E(%s)" % goal,
                                                  "detail": {"program": text, "polar_limit": str(lim), "exact_exit_expectation": str(want),
                                                             "P(termination)": str(pterm), "method": "absorbing chain"}})
                else:
                    D = 40
                    m2 = build_model(text, max_states=20000)
                    vD = cond_seq(m2, gp, D, 0)
                    vH = cond_seq(m2, gp, D // 2, 0)
                    if vD is not None and vH is not None and lim.is_number and lim.is_finite:
                        err = 10 * abs(float(vD - vH)) + 1e-9
                        stats["evaluations"] += 1
                        stats["limits_estimated"] = stats.get("limits_estimated", 0) + 1
                        if err < 0.05 * max(1.0, abs(float(vD))) and abs(float(sympy.N(lim, 30)) - float(vD)) > err:
                            res["violations"].append({"sub": "after-loop E(%s)" % goal,
                                                      "detail": {"program": text, "polar_limit": str(lim), "model_at_depth_40": str(float(vD)),
                                                                 "error_bar": err, "method": "depth-40 estimate"}})
                if "sample" not in res:
                    res["sample"] = {"program": text, "goal": goal, "polar_given_termination": str(mgt)[:200],
                                     "polar_limit": str(lim), "model_conditional_T<=n-1": [str(x) for x in seqs[1][:5]]}
                if len(set(seqs[1])) >= 2 or len(set(seqs[0])) >= 2:
                    stats["distinct_nontrivial"] = stats.get("distinct_nontrivial", 0) + 1
        except CpuTimeout:
            stats["refusals"]["timeout@oracle"] = stats["refusals"].get("timeout@oracle", 0) + 1
        except (NotApplicable, CapHit):
            pass
    stats["states"] = model.states_seen
    stats["transitions"] = model.transitions
    if res["violations"]:
        res["status"] = "violation"
    return res
