"""Shared machinery of C06 (soundness) and C07 (completeness) of the invariant ideal.

Menu of closed forms: each entry has the text handed to Polar and an independent exact evaluator
(Python integers / Fractions, Fibonacci and Lucas numbers by their recurrences).
"""
import itertools
from fractions import Fraction as F

from .pool import cpu_limit, CpuTimeout
from .common import exc_name


def _fib(n):
    a, b = 0, 1
    for _ in range(n):
        a, b = b, a + b
    return a


def _luc(n):
    a, b = 2, 1
    for _ in range(n):
        a, b = b, a + b
    return a


PHI = "((1+sqrt(5))/2)"
PSI = "((1-sqrt(5))/2)"

MENU = [
    ("1", lambda n: F(1)),
    ("n", lambda n: F(n)),
    ("n**2", lambda n: F(n * n)),
    ("2**n", lambda n: F(2) ** n),
    ("4**n", lambda n: F(4) ** n),
    ("8**n", lambda n: F(8) ** n),
    ("(1/2)**n", lambda n: F(1, 2) ** n),
    ("3**n", lambda n: F(3) ** n),
    ("6**n", lambda n: F(6) ** n),
    ("(-1)**n", lambda n: F(-1) ** n),
    ("(-2)**n", lambda n: F(-2) ** n),
    ("n*2**n", lambda n: F(n) * F(2) ** n),
    ("2**n + 1", lambda n: F(2) ** n + 1),
    ("2**n + 3**n", lambda n: F(2) ** n + F(3) ** n),
    ("9**n", lambda n: F(9) ** n),
    ("%s**n + %s**n" % (PHI, PSI), lambda n: F(_luc(n))),
    ("(%s**n - %s**n)/sqrt(5)" % (PHI, PSI), lambda n: F(_fib(n))),
    ("n + 2**n", lambda n: F(n) + F(2) ** n),
    ("(2/3)**n", lambda n: F(2, 3) ** n),
    ("5 - 3*(1/2)**n", lambda n: 5 - 3 * F(1, 2) ** n),
]
SYMS = ["f", "g", "h"]


def tuples(tier):
    out = []
    k = len(MENU)
    for i in range(k):
        out.append([i])
    for i, j in itertools.combinations(range(k), 2):
        out.append([i, j])
    if tier != "quick":
        for c in itertools.combinations(range(17), 3):
            out.append(list(c))
    else:
        # all triples over the first 13 menu entries
        for c in itertools.combinations(range(13), 3):
            out.append(list(c))
    return out


def polar_basis(idx):
    """-> list of basis polynomials as mc.poly over SYMS"""
    import sympy
    from invariants import InvariantIdeal
    from . import polar

    n = sympy.Symbol("n", integer=True)
    cfs = {}
    for s, i in zip(SYMS, idx):
        cfs[s] = sympy.sympify(MENU[i][0]).xreplace({sympy.Symbol("n"): n})
    basis = InvariantIdeal(cfs).compute_basis()
    return [sympy.expand(b) for b in basis]


def monomials(nv, deg):
    out = []
    for d in range(0, deg + 1):
        for combo in itertools.combinations_with_replacement(range(nv), d):
            e = [0] * nv
            for c in combo:
                e[c] += 1
            out.append(tuple(e))
    return out


def nullspace(rows, ncols):
    """Exact nullspace (list of vectors) of a Fraction matrix given as list of rows."""
    rows = [list(r) for r in rows]
    piv = []
    r = 0
    for c in range(ncols):
        p = None
        for i in range(r, len(rows)):
            if rows[i][c] != 0:
                p = i
                break
        if p is None:
            continue
        rows[r], rows[p] = rows[p], rows[r]
        pv = rows[r][c]
        rows[r] = [x / pv for x in rows[r]]
        for i in range(len(rows)):
            if i != r and rows[i][c] != 0:
                f = rows[i][c]
                rows[i] = [a - f * b for a, b in zip(rows[i], rows[r])]
        piv.append(c)
        r += 1
        if r == len(rows):
            break
    free = [c for c in range(ncols) if c not in piv]
    basis = []
    for fcol in free:
        v = [F(0)] * ncols
        v[fcol] = F(1)
        for i, pc in enumerate(piv):
            v[pc] = -rows[i][fcol]
        basis.append(v)
    return basis


def vanishing_space(idx, deg, L):
    nv = len(idx)
    mons = monomials(nv, deg)
    rows = []
    for n in range(L):
        vals = [MENU[i][1](n) for i in idx]
        row = []
        for e in mons:
            t = F(1)
            for v, k in zip(vals, e):
                t *= v ** k
            row.append(t)
        rows.append(row)
    return mons, nullspace(rows, len(mons))


def check_tuple(idx, mode, deg):
    """mode: 'sound' (C06) or 'complete' (C07)"""
    import sympy

    stats = {"evaluations": 0, "refusals": {}}
    res = {"status": "ok", "stats": stats, "violations": []}
    names = [MENU[i][0] for i in idx]
    try:
        with cpu_limit(90):
            basis = polar_basis(idx)
    except CpuTimeout:
        stats["refusals"]["timeout"] = 1
        res["status"] = "refusal"
        return res
    except Exception as e:
        stats["refusals"][exc_name(e)] = 1
        res["status"] = "refusal"
        return res
    syms = [sympy.Symbol(s) for s in SYMS[: len(idx)]]
    res["sample"] = {"closed_forms": dict(zip(SYMS, names)), "polar_basis": [str(b) for b in basis]}
    if mode == "sound":
        for b in basis:
            extra = b.free_symbols - set(syms)
            if extra:
                res["violations"].append({"sub": "invariant", "detail": {"closed_forms": names, "polynomial": str(b),
                                                                         "problem": "mentions non-goal symbols %s" % extra}})
                break
            for n in range(0, 13):
                vals = {s: sympy.Rational(MENU[i][1](n).numerator, MENU[i][1](n).denominator) for s, i in zip(syms, idx)}
                stats["evaluations"] += 1
                v = sympy.expand(b.xreplace(vals))
                if v != 0:
                    res["violations"].append({"sub": "invariant", "detail": {"closed_forms": names, "polynomial": str(b),
                                                                             "n": n, "value": str(v)}})
                    break
            if res["violations"]:
                break
        if basis:
            stats["distinct_nontrivial"] = 1
    else:
        L = 60
        try:
            with cpu_limit(120):
                mons, V = vanishing_space(idx, deg, L)
                mons2, V2 = vanishing_space(idx, deg, 2 * L)
                if len(V) != len(V2):
                    stats["undecided"] = 1
                    return res
                if V:
                    stats["distinct_nontrivial"] = 1
                G = sympy.groebner(basis, *syms, order="grevlex") if basis else None
                for vec in V2:
                    poly = sympy.Integer(0)
                    for c, e in zip(vec, mons2):
                        if c != 0:
                            t = sympy.Rational(c.numerator, c.denominator)
                            for s, k in zip(syms, e):
                                t *= s ** k
                            poly += t
                    stats["evaluations"] += 1
                    inside = (G is not None) and G.contains(sympy.expand(poly))
                    if not inside:
                        res["violations"].append({"sub": "missing-relation",
                                                  "detail": {"closed_forms": names, "relation_not_in_ideal": str(sympy.expand(poly)),
                                                             "polar_basis": [str(b) for b in basis], "degree_bound": deg}})
                        break
        except CpuTimeout:
            stats["refusals"]["timeout@oracle"] = 1
            res["status"] = "refusal"
            return res
    if res["violations"]:
        res["status"] = "violation"
    return res
