"""C16 — exponent-lattice bases consist of, and generate, all multiplicative relations.

Exhaustive over all lists of length <= L over a base alphabet; for each list the definition is
decided by brute force on the whole integer box [-B, B]^k: every returned vector satisfies
prod b_i^e_i = 1 exactly, the vectors are independent, and every box vector satisfying the relation
is an integer combination of the returned vectors.
"""
import itertools
from fractions import Fraction as F

from ..pool import cpu_limit, CpuTimeout
from ..common import exc_name

ID = "C16"
LEVEL = "exploration"
BUDGET = {"quick": 200, "thorough": 3000}
ASSUMPTIONS = [
    "rational relations decided with Fraction powers; algebraic ones by a 40-digit numeric prefilter followed by "
    "sympy.minimal_polynomial(expr - 1) == x (exact)",
    "completeness is decided inside the exponent box only",
]

RAT = ["1", "-1", "2", "-2", "3", "4", "8", "9", "1/2", "1/4", "2/3", "6"]
ALG = ["sqrt(2)", "-sqrt(2)", "I", "(1+sqrt(5))/2", "(1-sqrt(5))/2", "1+I", "2"]


def rule(tier):
    return ("all lists of length <= %s over the rational alphabet %s and of length <= %d over the algebraic alphabet %s; "
            "non-trivial = list whose true lattice (inside the box) is non-zero") % (
        "2 plus triples over the first 7 letters" if tier == "quick" else "3", RAT, 2 if tier == "quick" else 3, ALG)


def bounds(tier):
    return {"box": 6 if tier == "quick" else 6, "alg_box": 4}


def cases(tier, seed):
    out = []
    for k in (1, 2):
        for combo in itertools.product(RAT, repeat=k):
            out.append({"input": {"bases": list(combo), "kind": "rat"}, "box": 6})
    tri = RAT
    for combo in itertools.product(tri, repeat=3):
        out.append({"input": {"bases": list(combo), "kind": "rat"}, "box": 6 if tier != "quick" else 4})
    for k in (1, 2) if tier == "quick" else (1, 2, 3):
        for combo in itertools.combinations_with_replacement(ALG, k):
            if all(c == "2" for c in combo):
                continue
            out.append({"input": {"bases": list(combo), "kind": "alg"}, "box": 4 if k < 3 else 3})
    return out


def solve_int_comb(basis, v):
    """Is v an integer combination of the (independent) rows of basis?  Exact Gaussian elimination."""
    k = len(basis)
    n = len(v)
    if k == 0:
        return all(x == 0 for x in v)
    # solve sum_j c_j basis[j] = v
    rows = [[F(basis[j][i]) for j in range(k)] + [F(v[i])] for i in range(n)]
    piv = []
    r = 0
    for c in range(k):
        p = None
        for i in range(r, n):
            if rows[i][c] != 0:
                p = i
                break
        if p is None:
            return None  # dependent basis
        rows[r], rows[p] = rows[p], rows[r]
        pv = rows[r][c]
        rows[r] = [x / pv for x in rows[r]]
        for i in range(n):
            if i != r and rows[i][c] != 0:
                f = rows[i][c]
                rows[i] = [a - f * b for a, b in zip(rows[i], rows[r])]
        piv.append(c)
        r += 1
    for i in range(r, n):
        if rows[i][k] != 0:
            return False
    return all(rows[i][k].denominator == 1 for i in range(r))


def rank(vectors):
    rows = [[F(x) for x in v] for v in vectors]
    r = 0
    n = len(rows[0]) if rows else 0
    for c in range(n):
        p = None
        for i in range(r, len(rows)):
            if rows[i][c] != 0:
                p = i
                break
        if p is None:
            continue
        rows[r], rows[p] = rows[p], rows[r]
        for i in range(len(rows)):
            if i != r and rows[i][c] != 0:
                f = rows[i][c] / rows[r][c]
                rows[i] = [a - f * b for a, b in zip(rows[i], rows[r])]
        r += 1
    return r


def rel_holds_rat(bases, e):
    prod = F(1)
    for b, x in zip(bases, e):
        prod *= b ** x
    return prod == 1


def run_case(case):
    import sympy

    inp = case["input"]
    stats = {"evaluations": 0, "refusals": {}}
    res = {"status": "ok", "stats": stats, "violations": []}
    from invariants.exponent_lattice import ExponentLattice

    sbases = [sympy.sympify(b) for b in inp["bases"]]
    try:
        with cpu_limit(60):
            basis = ExponentLattice(sbases).compute_basis()
    except CpuTimeout:
        stats["refusals"]["timeout"] = 1
        res["status"] = "refusal"
        return res
    except Exception as e:
        stats["refusals"][exc_name(e)] = 1
        res["status"] = "refusal"
        return res
    basis = [[int(x) for x in v] for v in basis]
    k = len(sbases)
    B = case["box"]
    bad = None
    if inp["kind"] == "rat":
        fb = [F(b) for b in inp["bases"]]
        holds = lambda e: rel_holds_rat(fb, e)
        exact = holds
    else:
        import mpmath as mp

        mp.mp.dps = 50
        nb = [complex(sympy.N(b, 30)) for b in sbases]
        mb = [mp.mpmathify(sympy.N(b, 50)) for b in sbases]
        x = sympy.Symbol("x")

        def exact(e):
            expr = sympy.Integer(1)
            for b, ex in zip(sbases, e):
                expr *= b ** ex
            return sympy.minimal_polynomial(sympy.expand(sympy.simplify(expr)) - 1, x) == x

        def holds(e):
            pr = mp.mpf(1)
            for b, ex in zip(mb, e):
                pr *= b ** ex
            if abs(pr - 1) > mp.mpf("1e-30"):
                return False
            return exact(e)
    try:
        with cpu_limit(120):
            for v in basis:
                stats["evaluations"] += 1
                if len(v) != k or not exact(v):
                    bad = {"kind": "returned vector is not a relation", "vector": v}
                    break
            if bad is None and basis and rank(basis) != len(basis):
                bad = {"kind": "returned vectors are linearly dependent"}
            true_nonzero = 0
            if bad is None:
                for e in itertools.product(range(-B, B + 1), repeat=k):
                    if not any(e):
                        continue
                    stats["evaluations"] += 1
                    if holds(e):
                        true_nonzero += 1
                        ok = solve_int_comb(basis, list(e))
                        if not ok:
                            bad = {"kind": "relation not generated by the returned basis", "relation": list(e)}
                            break
            if true_nonzero:
                stats["distinct_nontrivial"] = 1
    except CpuTimeout:
        stats["refusals"]["timeout@oracle"] = 1
        res["status"] = "refusal"
        return res
    res["sample"] = {"bases": inp["bases"], "polar_basis": basis}
    if bad:
        res["violations"].append({"sub": "lattice", "detail": dict(bad, bases=inp["bases"], polar_basis=basis)})
        res["status"] = "violation"
    return res
