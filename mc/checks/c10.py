"""C10 — reported sensitivities are the parameter derivatives of the exact moments.

Programs with symbolic parameters (in probabilities, coefficients, distribution parameters, initial
values, several factors at once) are explored with the model over Q[p, q]: E_n(M) is an exact
polynomial in the parameters, differentiated by mc.poly.  Compared at every n <= N, as polynomials in
the parameters, with (a) the solved sensitivity recurrences (DiffRecBuilder) and (b) the derivative of
the closed form (what SensitivityAction._diff_closed_form computes); (a) == (b) follows wherever both return.
"""
import itertools

from .. import gen
from ..common import exc_name, build_model, THOROUGH
from ..model import NotApplicable, CapHit
from ..refparser import NotPolynomial
from ..poly import parse_poly, Poly
from ..pool import cpu_limit, CpuTimeout, tainted

ID = "C10"
LEVEL = "model_checking"
BUDGET = {"quick": 220, "thorough": 3300}
ASSUMPTIONS = [
    "the model's E_n(M) is an exact polynomial in the parameters; its derivative is computed by mc.poly",
    "Polar's results are compared as polynomials / rational functions in the parameters (all parameter values at once)",
]

P_STMTS = [
    "c = Bernoulli(p)",
    "x = x + 1 {p} x - 1",
    "x = x + p",
    "x = p*x",
    "x = x + p*c",
    "g = Normal(p, 1)\nx = x + g",
    "x = x + 1 {p} x {q} x - 2",
    "y = y + p*x",
    "if c == 1:\n x = x + p\nelse:\n x = x - q\nend",
    "x = x + p*q",
    "x = x + p**2",
]
P_STMTS_MORE = [
    "c = 0 {p} 1 {p} 2",
    "g = Uniform(0, p)\nx = x + g",
    "g = Laplace(p, 1)\ny = y + g**2",
    "x, y = y, p*x + y",
    "x = (1 - p)*x + p",
    "if c == 1:\n x = x + 1 {p} x\nend",
]
PLAIN = ["c = Bernoulli(1/2)", "x = x + c", "y = y + x", "x = 2*x", "if c == 1:\n x = x + 1\nend", "x, y = y, x"]
INITS = [{}, {"x": "p"}, {"x": "p", "y": "p*q"}, {"x": "p", "y": "2*x + 1"}]


def rule(tier):
    return ("all sequences of <= 2 statements with at least one parameter-carrying statement (menu of %d + %d plain), x 3 "
            "initialisations x every parameter x goal monomials of degree <= 2; non-trivial = (program, parameter, goal) whose true "
            "derivative sequence is not identically zero") % (len(P_STMTS) + (len(P_STMTS_MORE) if tier != "quick" else 0), len(PLAIN))


def bounds(tier):
    return {"depth_N": 4 if tier == "quick" else 5}


def render(seq, init):
    used = set()
    for s in seq:
        used |= gen._mentioned(s)
    lines = []
    for v in sorted(used):
        if v in ("c", "d"):
            lines.append("%s = %s" % (v, gen.INIT_CONST[v]))
        elif v == "g":
            lines.append("g = 0")
        else:
            lines.append("%s = %s" % (v, init.get(v, gen.INIT_CONST[v])))
    lines.append("while true:")
    for s in seq:
        for ln in s.split("\n"):
            lines.append("    " + ln)
    lines.append("end")
    return "\n".join(lines) + "\n"


CHAINS = [
    "c = Bernoulli(p)\ny = 0\nx = 0\nwhile true:\n    y = 2*y + c\n    x = x + c*y\nend\n",
    "c = Categorical(q, 1 - q)\nx = 0\nwhile true:\n    x = 3*x + c\nend\n",
    "c = Bernoulli(p)\nd = DiscreteUniform(0, 2)\nx = p\nwhile true:\n    if c == 1:\n        x = x + d\n    else:\n        x = x + p\n    end\nend\n",
    "c = 0 {p} 1 {q} 2\nx = 0\nwhile true:\n    x = x + c**2\nend\n",
    "v = 0\nw = 0\nx = 0\ny = 0\nb = 0\nwhile true:\n    v = v + 2*w\n    w = w + x\n    x = x + 3*y\n    b = Bernoulli(p)\n    y = y + b\nend\n",
    "w = 0\nx = 0\ny = 0\nwhile true:\n    w = w + x\n    x = x + y\n    y = y + p\nend\n",
    "v = 1\nw = 0\nx = 0\ny = 0\nwhile true:\n    v = w\n    w = x\n    x = y\n    y = y + 1 {p} y\nend\n",
    "x = 0\ny = 0\nz = p\nwhile true:\n    x = x + y\n    y = y + z\n    z = z*q\nend\n",
    # a parameter coefficient times a monomial mixing a parameter-dependent with a parameter-independent stateful variable,
    # under every relative name order of the two
    "x = 0\ny = 0\nz = 1\nwhile true:\n    x = x + 1 {p} x\n    z = z + 1 {1/2} z\n    y = y + p*x*z\nend\n",
    "x = 0\ny = 0\na = 1\nwhile true:\n    x = x + 1 {p} x\n    a = a + 1 {1/2} a\n    y = y + p*x*a\nend\n",
    "w = 0\ny = 0\nb = 1\nwhile true:\n    w = w + p\n    b = 2*b {1/2} b\n    y = y + p*w*b\nend\n",
    "x = 0\ny = 0\nz = 1\nu = 1\nwhile true:\n    x = x + 1 {p} x\n    z = z + 1 {1/2} z\n    u = u + 1\n    y = y + p*u*x*z + q*z\nend\n",
    "x = 0\ny = 0\nz = 1\nwhile true:\n    x = x + 1 {p} x\n    z = z + 1 {1/2} z\n    y = y + p**2*x*z**2 + p*z\nend\n",
    "x = 0\ny = 0\nz = 1\nwhile true:\n    z = z + 1 {1/2} z\n    y = y + p*z*x\n    x = x + 1 {p} x\nend\n",
    # lagging copies (closed forms with special cases beyond n = 0)
    "x = 0\ny = 0\nz = 0\nwhile true:\n    z = y\n    y = 2*x\n    x = Bernoulli(p)\nend\n",
    "x = 0\ny = 1\nz = 2\nw = 0\nwhile true:\n    w = w + z\n    z = y\n    y = x\n    x = 1 {p} 0\nend\n",
    # the parameter enters through the initial block only, and reaches other variables through initial assignments
    "x = p\ny = 2*x + 1\nz = 0\nwhile true:\n    z = z + y\n    y = y + 1 {1/2} y - 1\n    x = x + 1\nend\n",
    "x = p\ny = x\nw = y*y\nz = 0\nwhile true:\n    z = z + w\n    w = w + y\n    y = y + 1\n    x = 2*x\nend\n",
]


def cases(tier, seed):
    pm = P_STMTS + (P_STMTS_MORE if tier != "quick" else [])
    seqs = [[s] for s in pm]
    for a in pm:
        for b in PLAIN:
            seqs.append([a, b])
            seqs.append([b, a])
    if tier != "quick":
        for a, b in itertools.permutations(pm, 2):
            seqs.append([a, b])
    else:
        for a, b in itertools.permutations(P_STMTS[:6], 2):
            seqs.append([a, b])
    out, seen = [], set()
    for text in CHAINS:
        out.append({"input": {"text": text, "goals": gen.goals_for(text, 1, 6) + (["x**2"] if "x = " in text else ["w*b"])}, "N": 6})
    for seq in seqs:
        for ii, init in enumerate(INITS):
            if ii and len(seq) > 1 and tier == "quick" and seq[0] not in P_STMTS[:4]:
                continue
            text = render(seq, init)
            if text in seen:
                continue
            seen.add(text)
            goals = gen.goals_for(text, 2, 4 if tier == "quick" else 7)
            out.append({"input": {"text": text, "goals": goals}, "N": 4 if tier == "quick" else 5})
    return out


def run_case(case):
    from .. import polar
    import sympy

    text = case["input"]["text"]
    N = case["N"]
    stats = {"programs": 1, "evaluations": 0, "refusals": {}}
    res = {"status": "ok", "stats": stats, "violations": []}
    try:
        with cpu_limit(20):
            model = build_model(text)
            model.run(N)
    except (NotApplicable, NotPolynomial, CapHit, CpuTimeout):
        res["status"] = "na"
        return res
    polar.reset_settings()
    try:
        with cpu_limit(30):
            program = polar.normalize(polar.parse(text))
    except CpuTimeout:
        stats["refusals"]["timeout@normalize"] = 1
        res["status"] = "refusal"
        return res
    except Exception as e:
        stats["refusals"][exc_name(e)] = 1
        res["status"] = "refusal"
        return res
    from recurrences import DiffRecBuilder, RecBuilder
    from recurrences.solver import RecurrenceSolver
    from symengine.lib.symengine_wrapper import sympify as se

    params = sorted(str(s) for s in program.symbols if str(s) in ("p", "q"))
    rb = RecBuilder(program)
    for param in params:
        drb = None
        for goal in case["input"]["goals"]:
            if tainted():
                stats["refusals"]["skipped_after_timeout"] = stats["refusals"].get("skipped_after_timeout", 0) + 1
                continue
            gp = parse_poly(goal)
            truth = [model.moment(gp, n).diff(param) for n in range(N + 1)]
            nontrivial = any(not t.is_zero() for t in truth)
            results = {}
            # (a) sensitivity recurrences
            try:
                with cpu_limit(15 if not THOROUGH else 60):
                    if drb is None:
                        drb = DiffRecBuilder(program, se(param))
                    recs = drb.get_recurrences(se(goal))
                    solver = RecurrenceSolver(recs)
                    results["recurrences"] = (solver.get(drb.delta * se(goal)), solver.is_exact)
            except CpuTimeout:
                stats["refusals"]["timeout@diffrec"] = stats["refusals"].get("timeout@diffrec", 0) + 1
            except Exception as e:
                k = "diffrec:" + exc_name(e)
                stats["refusals"][k] = stats["refusals"].get(k, 0) + 1
            # (b) derivative of the closed form
            if not tainted():
                try:
                    with cpu_limit(15 if not THOROUGH else 60):
                        sol, exact, _ = polar.solve(program, goal, rb=rb)
                        d = sol.diff(sympy.Symbol(param))
                        try:
                            with cpu_limit(5):
                                d = d.simplify()
                        except CpuTimeout:
                            pass
                        results["closed_form_diff"] = (d, exact)
                except CpuTimeout:
                    stats["refusals"]["timeout@cfdiff"] = stats["refusals"].get("timeout@cfdiff", 0) + 1
                except Exception as e:
                    k = "cfdiff:" + exc_name(e)
                    stats["refusals"][k] = stats["refusals"].get(k, 0) + 1
            for method, (sol, exact) in results.items():
                if tainted():
                    break
                try:
                    with cpu_limit(15):
                        kmax = max(N, polar.own_max_case(sol) + 2)
                        for n in range(kmax + 1):
                            t = truth[n] if n < len(truth) else model.moment(gp, n).diff(param)
                            verdict, how, txt = polar.compare_value(polar.at_n(sol, n), t)
                            stats["evaluations"] += 1
                            if verdict == "neq":
                                res["violations"].append({"sub": "d/d%s E(%s) via %s" % (param, goal, method),
                                                          "detail": {"n": n, "expected": t.to_text(), "observed": txt,
                                                                     "polar": str(sol)[:400], "program": text}})
                                break
                except CpuTimeout:
                    stats["refusals"]["timeout@compare"] = stats["refusals"].get("timeout@compare", 0) + 1
            if nontrivial and results:
                stats["distinct_nontrivial"] = stats.get("distinct_nontrivial", 0) + 1
                if "sample" not in res:
                    res["sample"] = {"program": text, "goal": goal, "param": param,
                                     "true_derivative_n0..": [t.to_text() for t in truth],
                                     "polar": {m: str(s[0])[:200] for m, s in results.items()}}
    # (c) the printed routes: SensitivityAction with -sens_diff / -sens for the first parameter and the first two goals; lines
    #     "∂E(M) = v0; v1; ...; formula" are evaluated (listed special cases for small n, the formula beyond)
    if params and not tainted():
        try:
            _printed_routes(text, program, params[0], case["input"]["goals"][:2], model, N, stats, res)
        except CpuTimeout:
            stats["refusals"]["timeout@printed"] = 1
        except Exception as e:
            k = "printed:" + exc_name(e)
            stats["refusals"][k] = stats["refusals"].get(k, 0) + 1
    stats["states"] = model.states_seen
    stats["transitions"] = model.transitions
    if res["violations"]:
        res["status"] = "violation"
    return res


def _printed_routes(text, program, param, goals, model, N, stats, res):
    import contextlib
    import io
    import os
    import re
    import tempfile
    import sympy
    from .. import polar
    from cli.actions.sensitivity_action import SensitivityAction

    fd, path = tempfile.mkstemp(suffix=".prob", prefix="c10_")
    os.write(fd, text.encode())
    os.close(fd)
    try:
        for route in ("sensitivity_analysis_diff", "sensitivity_analysis"):
            args = polar.cli_defaults()
            args.goals = ["E(%s)" % g for g in goals]
            args.sensitivity_analysis = None
            args.sensitivity_analysis_diff = None
            setattr(args, route, param)
            buf = io.StringIO()
            with cpu_limit(40):
                with contextlib.redirect_stdout(buf):
                    SensitivityAction(args)(path)
            out = re.sub(r"\x1b\[[0-9;]*m", "", buf.getvalue())
            for g in goals:
                gp = parse_poly(g)
                gs = str(sympy.sympify(g))
                m = None
                for line in out.split("\n"):
                    mm = re.match(r"^∂(?:E\()?(.+?)\)? = (.*)$", line)
                    if mm and str(sympy.sympify(mm.group(1))) == gs:
                        m = mm
                        break
                if not m or "Piecewise" in m.group(2):
                    stats["printed_not_parsed"] = stats.get("printed_not_parsed", 0) + 1
                    continue
                parts = [x.strip() for x in m.group(2).split(";")]
                specials, formula = parts[:-1], sympy.sympify(parts[-1])
                for n in range(max(N, len(specials) + 2) + 1):
                    val = sympy.sympify(specials[n]) if n < len(specials) else polar.at_n(formula, n)
                    t = model.moment(gp, n).diff(param)
                    verdict, how, txt = polar.compare_value(val, t)
                    stats["evaluations"] += 1
                    if verdict == "neq":
                        res["violations"].append({"sub": "printed d/d%s E(%s) via -%s" % (param, g, "sens_diff" if "diff" in route else "sens"),
                                                  "detail": {"n": n, "expected": t.to_text(), "observed": txt, "printed": m.group(2)[:300],
                                                             "program": text}})
                        break
    finally:
        os.unlink(path)
        polar.reset_settings()
